"""python3 vlib/prof.py <property> <entry> [wall_s]: run one harness (all its split parts) and print per-part timing/obligations."""
import sys, json, time, os, tempfile
sys.path.insert(0, os.path.dirname(os.path.dirname(os.path.abspath(__file__))))
from vlib import e1
from vlib.common import *
from concurrent.futures import ThreadPoolExecutor

pid, entry = sys.argv[1], sys.argv[2]
wall = sys.argv[3] if len(sys.argv) > 3 else '120'
only = sys.argv[4].split(',') if len(sys.argv) > 4 else None
build_gosym()
tmp = tempfile.mkdtemp()
ov = os.path.join(tmp, 'ov.json')
json.dump(overlay_map(), open(ov, 'w'))
props = discover_entries()
ents = [e for e in props[pid] if e['entry'] == entry]
with ThreadPoolExecutor(max_workers=14) as ex:
    futs = []
    for e in ents:
        o, jobs = e1.gosym_jobs(e, 'quick')
        o['wall'] = wall
        for fix, tag in jobs:
            if only and fix.split('=')[-1] not in only:
                continue
            futs.append((e['entry'], fix, ex.submit(e1.run_gosym_one, e, ov, tmp, o, 'z3', fix, tag)))
    for name, fix, f in futs:
        r = f.result()
        bad = [(o['status'], o['id'][-90:], json.dumps(o.get('model'))[:300]) for o in r.get('obligations', []) if o['status'] != 'unsat']
        print(name, fix, 'paths', r.get('paths'), 'cut', r.get('paths_cut'), 'solver_s', round(r.get('solver_ms', 0) / 1000, 1), 'wall', round(r.get('wall_ms', 0) / 1000),
              r.get('incomplete'), bad, (r.get('error') or '')[-300:], flush=True)

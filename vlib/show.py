import json,sys
txt=sys.stdin.read()
i=txt.index('[\n {')
for r in json.loads(txt[i:]):
    print({k:r.get(k) for k in ['harness','complete','paths','paths_ended','paths_cut','instrs','queries','solver_ms','wall_ms','covers','incomplete','error']})
    for o in r.get('obligations') or []: print('  ',o['status'],o['id'][-110:],json.dumps(o.get('model'))[:300] if o.get('model') else '')
    print('  stubs',r.get('stubs'))

#!/bin/sh
# seed_confirm.sh <ID> <worktree> <demo file relative to worktree> <go test package pattern> <-run regex> [pkg tests...]
# Confirms, in the scratch worktree: builds; demo FAILS with the patch; demo PASSES without it; listed package tests pass with the patch.
set -u
ID=$1; WT=$2; DEMO=$3; PKG=$4; RUN=$5; shift 5
export GOFLAGS=-mod=mod GOPROXY=off GOSUMDB=off GOTOOLCHAIN=local
cd "$WT" || exit 2
echo "[$ID] build with patch:"; go build ./... && echo "  ok" || { echo "  BUILD FAILED"; exit 1; }
echo "[$ID] demo with patch (must FAIL):"
if go test -vet=off -count=1 -run "$RUN" "$PKG" >/tmp/seed_demo_$ID.log 2>&1; then echo "  UNEXPECTED PASS"; R1=bad; else echo "  fails as expected"; R1=ok; fi
mv "$DEMO" /tmp/seed_demo_$ID.go
echo "[$ID] existing tests with patch:"
for p in "$@"; do go test -vet=off -count=1 "$p" 2>&1 | tail -3; done
mv /tmp/seed_demo_$ID.go "$DEMO"
git diff > /tmp/seed_patch_$ID.diff; git apply -R /tmp/seed_patch_$ID.diff
echo "[$ID] demo without patch (must PASS):"
if go test -vet=off -count=1 -run "$RUN" "$PKG" >/tmp/seed_demo2_$ID.log 2>&1; then echo "  passes as expected"; R2=ok; else echo "  UNEXPECTED FAIL"; tail -5 /tmp/seed_demo2_$ID.log; R2=bad; fi
git apply /tmp/seed_patch_$ID.diff
echo "[$ID] result: with=$R1 without=$R2"

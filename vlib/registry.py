"""Which engine decides which property."""
from . import e1
from .props import CLAIMS


def run(pid, tier, seed, replay=None):
    if replay:
        return e1.replay_file(replay)
    level = CLAIMS.get(pid, {}).get("level", "model_checking")
    return e1.check_property(pid, tier, seed, level=level)

"""Which engine decides which property."""
from . import e1


def run(pid, tier, seed, replay=None):
    if replay:
        return e1.replay_file(replay)
    return e1.check_property(pid, tier, seed)

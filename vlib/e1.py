"""E1 driver: run gosym harnesses of one property, replay models natively, write evidence."""
import json, os, re, shutil, subprocess, sys, tempfile, time, hashlib
from concurrent.futures import ThreadPoolExecutor
from .common import *

KNOWN_FILE = os.path.join(VERIF, "known_findings.json")


def load_known():
    if not os.path.exists(KNOWN_FILE):
        return []
    return json.load(open(KNOWN_FILE)).get("findings", [])


def tier_opts(opts, tier):
    """opts may carry tier-specific values: key=quickval/thoroughval"""
    out = {}
    for k, v in opts.items():
        if "/" in v:
            q, t = v.split("/", 1)
            out[k] = q if tier == "quick" else t
        else:
            out[k] = v
    return out


def run_gosym_one(entry, ovfile, tmp, o, solver, fix, tag, tier="quick"):
    out = os.path.join(tmp, entry["entry"] + tag + ".json")
    cmd = [os.path.join(BIN, "gosym"), "-dir", REPO, "-overlay", ovfile, "-pkg", "./" + entry["pkg"], "-entry", entry["entry"],
           "-out", out, "-known", KNOWN_FILE, "-solver", solver, "-tier", tier]
    for k in ("unwind", "maxpaths", "wall", "concr-cap", "feas-timeout", "obl-timeout", "maxsteps"):
        if k in o:
            cmd += ["-" + k, o[k]]
    if fix:
        cmd += ["-fix", fix]
    t0 = time.time()
    r = run(cmd, env=GOENV)
    if r.returncode != 0 or not os.path.exists(out):
        return dict(harness=entry["entry"], error="gosym failed: " + (r.stderr[-2000:] or r.stdout[-2000:]), package=entry["pkg"])
    res = json.load(open(out))[0]
    res["stderr"] = r.stderr[-4000:]
    res["cmd_wall_s"] = time.time() - t0
    return res


STATUS_RANK = {"unsat": 0, "unknown": 1, "sat": 2}


def merge_results(parts):
    """Merge the results of one harness run split over a Choose variable."""
    parts = [p for p in parts if p is not None]
    for p in parts:
        if p.get("error"):
            return p
    res = dict(parts[0])
    for k in ("paths", "forks", "instrs", "queries", "queries_sat", "queries_unsat", "queries_unknown", "solver_ms", "terms", "shapes"):
        res[k] = sum(p.get(k) or 0 for p in parts)
    res["wall_ms"] = max(p.get("wall_ms") or 0 for p in parts)
    for k in ("paths_ended", "paths_cut", "functions"):
        d = {}
        for p in parts:
            for kk, vv in (p.get(k) or {}).items():
                d[kk] = d.get(kk, 0) + vv
        res[k] = d
    covers, cm = {}, {}
    for p in parts:
        covers.update({k: v for k, v in (p.get("covers") or {}).items() if v})
        for k, v in (p.get("cover_models") or {}).items():
            cm.setdefault(k, v)
    res["covers"], res["cover_models"] = covers, cm
    obl = {}
    order = []
    for p in parts:
        for o in p.get("obligations") or []:
            if o["id"] not in obl:
                obl[o["id"]] = o
                order.append(o["id"])
            elif STATUS_RANK.get(o["status"], 1) > STATUS_RANK.get(obl[o["id"]]["status"], 1):
                obl[o["id"]] = o
    res["obligations"] = [obl[i] for i in order]
    inc = []
    for p in parts:
        for x in p.get("incomplete") or []:
            if x not in inc:
                inc.append(x)
    res["incomplete"] = inc
    res["complete"] = all(p.get("complete") for p in parts)
    for k in ("assumes", "stubs", "inputs"):
        u = []
        for p in parts:
            for x in p.get(k) or []:
                if x not in u:
                    u.append(x)
        res[k] = u
    res["split_parts"] = len(parts)
    return res


def gosym_jobs(entry, tier):
    """Expand an entry into (opts, fix, tag) jobs; split=name:n runs one process per forced Choose value."""
    o = tier_opts(entry["opts"], tier)
    if o.get("tier") == "thorough" and tier == "quick":
        return None, []
    only = os.environ.get("VERIF_ONLY")  # debugging aid: "Entry" or "Entry:3,7" restricts what runs
    if only:
        oe, _, parts = only.partition(":")
        if oe != entry["entry"]:
            return None, []
    sp = o.get("split")
    if not sp:
        return o, [("", "")]
    name, _, n = sp.partition(":")
    jobs = [("%s=%d" % (name, i), "_%s%d" % (name, i)) for i in range(int(n))]
    if only and parts:
        keep = set(parts.split(","))
        jobs = [j for j in jobs if j[0].split("=")[1] in keep]
    return o, jobs


def build_replay_binary(pkg, entries, ovmap, tmp):
    """Compile the package's test binary with a generated TestVerifReplay; returns path or (None, err)."""
    pkgdir = os.path.normpath(os.path.join(REPO, pkg))
    # package name: read from a harness file
    src = open(entries[0]["file"]).read()
    pkgname = re.search(r"^package (\w+)", src, re.M).group(1)
    names = sorted({e["entry"] for e in entries})
    gen = os.path.join(tmp, "replay_%s_test.go" % hashlib.md5(pkg.encode()).hexdigest()[:8])
    with open(gen, "w") as f:
        f.write("//go:build verif\n\npackage %s\n\nimport (\n\t\"os\"\n\t\"testing\"\n\n\t\"github.com/tetratelabs/wazero/internal/verifrt\"\n)\n\n" % pkgname)
        f.write("var verifEntries = map[string]func(){\n")
        for n in names:
            f.write("\t\"%s\": %s,\n" % (n, n))
        f.write("}\n\nfunc TestVerifReplay(t *testing.T) {\n\tn := os.Getenv(\"VERIF_ENTRY\")\n\tverifrt.RunReplay(n, verifEntries[n])\n}\n")
    m = dict(ovmap)
    m[os.path.join(pkgdir, "zz_verif_replay_test.go")] = gen
    # drop the package's own tests from this build (faster, and independent of them): overlay them to "deleted"
    for fn in os.listdir(pkgdir):
        if fn.endswith("_test.go"):
            m[os.path.join(pkgdir, fn)] = ""
    ovf = os.path.join(tmp, "ov_replay_%s.json" % hashlib.md5(pkg.encode()).hexdigest()[:8])
    json.dump({"Replace": m}, open(ovf, "w"))
    binp = os.path.join(tmp, "replay_%s.test" % hashlib.md5(pkg.encode()).hexdigest()[:8])
    r = run(["go", "test", "-c", "-tags", "verif", "-vet=off", "-overlay", ovf, "-o", binp, "./" + pkg], cwd=REPO, env=GOENV)
    if r.returncode != 0:
        return None, r.stderr[-3000:]
    return binp, ""


REPLAY_RE = re.compile(r'REPLAY-RESULT harness=(\S+) outcome=(\S+) detail="((?:[^"\\]|\\.)*)"')


def native_replay(binp, entry, model, tmp, tag):
    rf = os.path.join(tmp, "rp_%s_%s.json" % (entry, tag))
    json.dump({"harness": entry, "model": model}, open(rf, "w"))
    env = dict(GOENV, VERIF_REPLAY=rf, VERIF_ENTRY=entry, VERIF_TIER=os.environ.get("VERIF_TIER_CURRENT", "quick"))
    try:
        r = subprocess.run([binp, "-test.run", "^TestVerifReplay$", "-test.timeout", "120s"], env=env, capture_output=True, text=True, timeout=180,
                           cwd=os.path.dirname(binp))
    except subprocess.TimeoutExpired:
        return dict(outcome="timeout", detail="")
    m = REPLAY_RE.search(r.stdout)
    if not m:
        # the process died (fatal error, SIGSEGV): that is itself an outcome
        allout = r.stdout + r.stderr
        if "test timed out" in allout:
            return dict(outcome="timeout", detail="go test deadline (120s) reached: the harness did not return")
        return dict(outcome="crash", detail=allout[-600:])
    return dict(outcome=m.group(2), detail=m.group(3))


def matches_expectation(obl, rr):
    """Does the native outcome reproduce the violated obligation?"""
    kind = obl["kind"]
    if kind == "assert":
        return rr["outcome"] == "assert" and obl["msg"] in (rr["detail"] or "") or rr["outcome"] == "assert"
    if kind in ("panic", "deadlock"):
        return rr["outcome"] in ("panic", "crash", "timeout")
    if kind == "nonterm":
        return rr["outcome"] == "timeout" or (rr["outcome"] == "crash" and "timed out" in (rr["detail"] or ""))
    if kind == "alloc":
        return True  # allocation budgets are not observable natively without allocating; taken from the encoding
    return False


def check_property(pid, tier, seed, level="model_checking", extra_assumptions=None, design_ref=""):
    t0 = time.time()
    build_gosym()
    props = discover_entries()
    entries = props.get(pid, [])
    if not entries:
        print("ERROR property=%s no harness" % pid)
        return 2
    tmp = tempfile.mkdtemp(prefix="verif_%s_" % pid)
    try:
        return _check(pid, tier, seed, entries, tmp, t0, level, extra_assumptions or [])
    finally:
        shutil.rmtree(tmp, ignore_errors=True)


def _check(pid, tier, seed, entries, tmp, t0, level, extra_assumptions):
    os.environ["VERIF_TIER_CURRENT"] = tier
    ovmap = overlay_map()
    ovfile = os.path.join(tmp, "overlay.json")
    json.dump(ovmap, open(ovfile, "w"))
    known = load_known()
    results = []
    with ThreadPoolExecutor(max_workers=max(2, NCPU // 2)) as ex:  # each gosym drives its own z3: two processes per worker
        futs = []
        for e in entries:
            o, jobs = gosym_jobs(e, tier)
            if not jobs:
                continue
            futs.append((e, [ex.submit(run_gosym_one, e, ovfile, tmp, o, "z3", fix, tag, tier) for fix, tag in jobs]))
        for e, fs in futs:
            r = merge_results([f.result() for f in fs])
            r["_entry"] = e
            results.append(r)
    errors, violations, knowns, unconfirmed = [], [], [], []
    # machinery problems
    for r in results:
        if r.get("error"):
            errors.append("%s: %s" % (r["harness"], r["error"]))
        elif not r.get("complete"):
            errors.append("%s: incomplete: %s" % (r["harness"], "; ".join(r.get("incomplete", []))[:600]))
    # replay
    bypkg = {}
    for r in results:
        bypkg.setdefault(r["_entry"]["pkg"], []).append(r["_entry"])
    bins = {}
    need_replay = any(o["status"] == "sat" for r in results for o in r.get("obligations") or []) or True
    if need_replay:
        with ThreadPoolExecutor(max_workers=4) as ex:
            futs = {pkg: ex.submit(build_replay_binary, pkg, es, ovmap, tmp) for pkg, es in bypkg.items()}
            for pkg, f in futs.items():
                bins[pkg] = f.result()
    validated = 0
    validated_bad = []
    samples = []
    jobs = []
    for r in results:
        if r.get("error"):
            continue
        binp, err = bins.get(r["_entry"]["pkg"], (None, "no binary"))
        if binp is None:
            errors.append("%s: replay binary failed to build: %s" % (r["harness"], err[-800:]))
            continue
        for i, o in enumerate(r.get("obligations") or []):
            if o["status"] == "sat":
                if o.get("model") is None:
                    o["model"] = {}  # a violation that depends on no named input (e.g. an unconstrained host value)
                jobs.append(("viol", r, o, binp, "o%d" % i))
        for label, model in (r.get("cover_models") or {}).items():
            jobs.append(("cover", r, dict(label=label, model=model), binp, "c" + re.sub(r"\W", "_", label)))
    with ThreadPoolExecutor(max_workers=max(2, NCPU // 2)) as ex:
        futs = [(j, ex.submit(native_replay, j[3], j[1]["harness"], j[2]["model"], tmp, j[4])) for j in jobs]
        for j, f in futs:
            kind, r, o, binp, tag = j
            rr = f.result()
            if kind == "cover":
                # a covered, violation-free path must run natively without failure
                if rr["outcome"] == "ok":
                    validated += 1
                elif rr["outcome"] in ("assert", "panic", "crash"):
                    # native run fails where the encoding saw a clean path – unless the same harness has a sat obligation
                    # (then the cover model may sit in a violating region reached before the assertion point)
                    has_sat = any(x["status"] == "sat" for x in r.get("obligations") or [])
                    if not has_sat:
                        validated_bad.append("%s cover %s: native %s %s" % (r["harness"], o["label"], rr["outcome"], rr["detail"][:200]))
                    else:
                        validated += 1
                continue
            ok = matches_expectation(o, rr)
            validated += 1 if ok else 0
            rec = dict(harness=r["harness"], obligation=o["id"], model=o["model"], native=rr, reproduced=ok)
            if o.get("known"):
                if ok:
                    knowns.append((r, o, rr))
                else:
                    unconfirmed.append(rec)
                continue
            if ok:
                os.makedirs(os.path.join(VERIF, "replay"), exist_ok=True)
                rp = os.path.join(VERIF, "replay", "%s-%s-%s.json" % (pid, r["harness"], tag))
                json.dump(dict(property=pid, harness=r["harness"], package=r["_entry"]["pkg"], obligation=o["id"], site=o["site"],
                               msg=o["msg"], model=o["model"], native=rr), open(rp, "w"), indent=1)
                violations.append((r, o, rp))
            else:
                unconfirmed.append(rec)
    # vacuity: every declared cover label reached
    for r in results:
        if r.get("error"):
            continue
        for lab in r["_entry"]["covers"]:
            if not (r.get("covers") or {}).get(lab):
                errors.append("%s: cover %r not reachable (vacuous harness or behaviour change)" % (r["harness"], lab))
    for r in results:
        for o in r.get("obligations") or []:
            if o["status"] == "unknown":
                errors.append("%s: obligation inconclusive (solver unknown): %s" % (r["harness"], o["id"]))
    for b in validated_bad:
        errors.append("encoder disagreement: " + b)

    # ---- evidence
    n_obl = sum(len(r.get("obligations") or []) for r in results)
    n_unsat = sum(1 for r in results for o in r.get("obligations") or [] if o["status"] == "unsat")
    funcs = {}
    for r in results:
        for k, v in (r.get("functions") or {}).items():
            if "verifrt" in k:
                continue
            funcs[k.replace("github.com/tetratelabs/wazero/", "")] = funcs.get(k, 0) + v
    for r in results[:]:
        pass
    for r in results:
        for o in (r.get("obligations") or [])[:3]:
            if len(samples) < 12:
                samples.append(dict(harness=r["harness"], obligation=o["id"].replace("github.com/tetratelabs/wazero/", ""), status=o["status"],
                                    model=o.get("model")))
        for lab, m in list((r.get("cover_models") or {}).items())[:1]:
            if len(samples) < 16:
                samples.append(dict(harness=r["harness"], cover=lab, witness=m))
    assumptions = ["z3 4.8.12 (z3 -in); go/ssa (x/tools v0.29.0) construction; gosym's SSA semantics and intrinsics (guarded by native replay of cover witnesses)"]
    for r in results:
        for s in r.get("stubs") or []:
            a = "%s: stub %s" % (r["harness"], s)
            if a not in assumptions:
                assumptions.append(a)
        na = len(r.get("assumes") or [])
        if na:
            assumptions.append("%s: %d Assume sites (bounds; see harness source %s)" % (r["harness"], na, os.path.relpath(r["_entry"]["file"], VERIF)))
    assumptions += extra_assumptions
    ev = dict(property_id=pid, tier=tier, seed=seed, level=level,
              coverage=dict(
                  states=sum(r.get("paths", 0) for r in results),
                  transitions=sum(r.get("instrs", 0) for r in results),
                  traces_validated_against_impl=validated,
                  samples=samples or [dict(note="no obligations")],
                  harnesses=[dict(harness=r["harness"], package=r.get("package"), complete=r.get("complete"), paths=r.get("paths"),
                                  paths_ended=r.get("paths_ended"), paths_cut=r.get("paths_cut"), forks=r.get("forks"), instrs=r.get("instrs"),
                                  queries=r.get("queries"), sat=r.get("queries_sat"), unsat=r.get("queries_unsat"), unknown=r.get("queries_unknown"),
                                  solver_ms=r.get("solver_ms"), wall_ms=r.get("wall_ms"), inputs=r.get("inputs"),
                                  covers=r.get("covers"), incomplete=r.get("incomplete"), error=r.get("error"),
                                  bounds=tier_opts(r["_entry"]["opts"], tier),
                                  obligations=[dict(id=o["id"].replace("github.com/tetratelabs/wazero/", ""), status=o["status"], known=o.get("known"))
                                               for o in r.get("obligations") or []]) for r in results],
                  functions_encoded=dict(sorted(funcs.items(), key=lambda kv: -kv[1])[:60]),
                  obligations=n_obl, discharged=n_unsat,
                  programs=sum(r.get("shapes", 0) or 0 for r in results),
                  disagreements_checked=len(violations) + len(knowns) + len(unconfirmed),
                  queries=sum(r.get("queries", 0) for r in results),
                  solver_s=round(sum(r.get("solver_ms", 0) for r in results) / 1000, 3),
                  known_findings=[dict(harness=r["harness"], what=o.get("known"), obligation=o["id"], model=o.get("model")) for r, o, rr in knowns],
                  unconfirmed_models=unconfirmed,
                  machinery_errors=errors,
                  explanation="bounded symbolic execution of the listed real functions (go/ssa of /repo's working tree) with z3 deciding every branch "
                              "feasibility and obligation; states = explored symbolic paths, transitions = SSA instructions executed; every sat obligation "
                              "and every cover witness is replayed against the natively compiled harness"),
              assumptions=assumptions, wall_s=round(time.time() - t0, 2), violations=len(violations))
    os.makedirs(os.path.join(VERIF, "evidence"), exist_ok=True)
    json.dump(ev, open(os.path.join(VERIF, "evidence", pid + ".json"), "w"), indent=1)

    seen = set()
    for r, o, rr in knowns:
        key = (o.get("known"))
        if key in seen:
            continue
        seen.add(key)
        print("KNOWN-FINDING: property=%s %s [harness %s]" % (pid, o.get("known"), r["harness"]))
    for rec in unconfirmed:
        log("UNCONFIRMED (model did not reproduce natively; not reported): %s %s native=%s" % (rec["harness"], rec["obligation"], rec["native"]))
    for r, o, rp in violations:
        print("VIOLATION property=%s replay=%s" % (pid, rp))
        log("  harness=%s obligation=%s" % (r["harness"], o["id"]))
        log("  model=%s" % json.dumps(o["model"])[:600])
    if violations:
        return 1
    for rec in unconfirmed:
        # the solver says violated, the native run does not show it: encoding, stub or replay is wrong -> inconclusive, never a pass
        errors.append("%s: counterexample for %s did not reproduce natively (inconclusive)" % (rec["harness"], rec["obligation"]))
    if errors:
        for e in errors:
            print("ERROR property=%s %s" % (pid, e))
        return 2
    print("OK property=%s tier=%s harnesses=%d paths=%d obligations=%d discharged=%d replays=%d wall=%.1fs" % (
        pid, tier, len(results), ev["coverage"]["states"], n_obl, n_unsat, validated, time.time() - t0))
    return 0

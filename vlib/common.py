"""Shared helpers for the /verif check driver."""
import json, os, re, shutil, subprocess, sys, tempfile, time, glob

VERIF = os.path.dirname(os.path.dirname(os.path.abspath(__file__)))
REPO = os.environ.get("VERIF_REPO", "/repo")
HARNESS = os.path.join(VERIF, "harness")
BIN = os.path.join(VERIF, "bin")
GOENV = dict(os.environ, GOFLAGS="-mod=mod", GOPROXY="off", GOSUMDB="off", GOTOOLCHAIN="local", CGO_ENABLED="0")
NCPU = os.cpu_count() or 4


def log(*a):
    print(*a, file=sys.stderr, flush=True)


def build_gosym():
    """(Re)build the symbolic executor; cheap when cached."""
    os.makedirs(BIN, exist_ok=True)
    r = subprocess.run(["go", "build", "-o", os.path.join(BIN, "gosym"), "."], cwd=os.path.join(VERIF, "gosym"),
                       env=GOENV, capture_output=True, text=True)
    if r.returncode != 0:
        log(r.stdout, r.stderr)
        raise SystemExit(2)


def harness_files():
    """Yield (pkgdir relative to repo, real path) for every harness source."""
    out = []
    for root, _, files in os.walk(HARNESS):
        rel = os.path.relpath(root, HARNESS)
        for f in sorted(files):
            if not f.endswith(".go"):
                continue
            real = os.path.join(root, f)
            if rel == "verifrt":
                out.append(("internal/verifrt", f, real))
            elif rel == "_root":
                out.append((".", "zz_verif_" + f, real))
            else:
                out.append((rel, "zz_verif_" + f, real))
    return out


def overlay_map(extra=None):
    m = {}
    for pkg, name, real in harness_files():
        m[os.path.normpath(os.path.join(REPO, pkg, name))] = real
    if extra:
        m.update(extra)
    return m


ENTRY_RE = re.compile(r"^func (Verif(C\d+)_\w+)\(\)", re.M)
OPTS_RE = re.compile(r"^//verif:opts (.*)$", re.M)
COVER_RE = re.compile(r'verifrt\.Cover\("([^"]+)"\)')


def discover_entries():
    """Return {property: [ {entry, pkg, file, opts, covers} ]} from the harness sources."""
    props = {}
    for pkg, name, real in harness_files():
        if pkg == "internal/verifrt":
            continue
        src = open(real).read()
        # split the file into function chunks to attach opts / covers to the entry that follows / contains them
        matches = list(ENTRY_RE.finditer(src))
        for i, m in enumerate(matches):
            end = matches[i + 1].start() if i + 1 < len(matches) else len(src)
            body = src[m.start():end]
            # opts: directive lines immediately above the func (look back to previous blank line)
            head = src[:m.start()]
            prev = head.rstrip().split("\n")
            opts = {}
            j = len(prev) - 1
            while j >= 0 and prev[j].startswith("//"):
                mo = OPTS_RE.match(prev[j])
                if mo:
                    for kv in mo.group(1).split():
                        k, _, v = kv.partition("=")
                        opts[k] = v
                j -= 1
            covers = COVER_RE.findall(body)
            props.setdefault(m.group(2), []).append(
                dict(entry=m.group(1), pkg=pkg, file=real, opts=opts, covers=covers))
    return props


def run(cmd, **kw):
    return subprocess.run(cmd, capture_output=True, text=True, **kw)

"""Per-property claims used to generate MANIFEST.json (python3 vlib/props.py writes it)."""
import json, os, sys

VERIF = os.path.dirname(os.path.dirname(os.path.abspath(__file__)))

E1_NOTE = ("Trusted: go/ssa construction (x/tools v0.29.0), gosym's SSA semantics/intrinsics (guarded by native replay of every "
           "cover witness and counterexample), z3 4.8.12. Bounds (Assume sites, unwinding, path caps) are listed per harness in the evidence; "
           "everything outside them is outside the claim.")

CLAIMS = {
    "C14": dict(
        level="model_checking", engine="gosym",
        technique="bounded symbolic execution of the real Go functions (go/ssa -> SMT bit-vectors/arrays), z3 decides every branch and assertion; counterexamples replayed natively",
        text="For every memory size 0..65536 pages (symbolic 64-bit length, symbolic contents) and every offset/length/value, each host memory "
             "accessor of MemoryInstance succeeds iff offset+length <= size, never raises a Go run-time panic, and reads/writes exactly the addressed bytes; "
             "Grow from any state satisfying the size invariant succeeds iff the result stays within Max, returns the previous size, preserves contents and zero-fills. "
             "Solver verdict over all values within the stated bounds, not sampling.",
        design_ref="DESIGN.md §5 C14"),
}

E1_TECH = "bounded symbolic execution of the real Go functions (go/ssa -> SMT bit-vectors/arrays), z3 decides every branch and assertion; counterexamples replayed natively"

CLAIMS.update({
    "C03": dict(level="model_checking", engine="gosym", technique=E1_TECH, design_ref="DESIGN.md §5 C03",
        text="Decoder kernels on arbitrary bytes: for every buffer of 0..11 symbolic bytes each LEB128 decoder returns a value or an error (no Go run-time panic), "
             "accepts exactly the encodings that terminate within 5/10 bytes and fit the width (unsigned) / returns the sign-extended payload with bounded bytesRead (signed), "
             "and Load(Encode(v)) == v for every 32/64-bit v. Validator family: a multi-value `if` without `else` typed (p)->(r) for every p, r in {i32,i64,f32,f64} is accepted iff p == r, and accepted modules run on the interpreter without internal failure and return the specified value. "
             "`ref.func x` in a body, for ALL 2^32 x (patched as a 5-byte LEB128), is accepted iff x is a function index declared outside function bodies (element items resolved through a global declare none). "
             "One entry of the code section with ANY declared size 0..15, 0..2 local declarations (counts 0..3, arbitrary type bytes) and 0..2 body bytes: decodeCode returns a value or an error, never a Go run-time panic, and an accepted body has the declared length minus the declarations. "
             "Dead-code family: 25 immediate-carrying instruction sequences (label vectors with defaults, block types, constants whose bytes look like opcodes, memargs, prefixed opcodes, lane immediates) placed in unreachable code of a by-construction valid function: accepted by decoder, validator, interpreter compiler and wazevo front end, and both engines return the specified value for all arguments. "
             "Whole-module decoding on arbitrary bytes and the rest of function-body validation are outside this claim (see evidence bounds)."),
    "C16": dict(level="model_checking", engine="gosym", technique=E1_TECH, design_ref="DESIGN.md §5 C16",
        text="One-step induction against ghost reference models: from an arbitrary descriptor table state (0..2 symbolic mask words, symbolic items) Insert returns the lowest free key, "
             "InsertAt/Delete/Lookup act as a map for every int32 key and leave all other keys unchanged. FSContext open/close/renumber against a ghost map from states with 0, 59 or 60 descriptors open (just below / at the 64-entry word boundary of the table's bitmap) plus 0..2 opens and two arbitrary operations on descriptors around the top of the table; fd_readdir two-step protocol; the dirent cache behind it: histories of four reads (0..3 entries, 3..6 entries asked) from 0 (rewind) or any cookie of the previous read return exactly the slice of ['.', '..', entries] that starts there. "
             "fd_renumber of an open file to ANY target descriptor 0..2^31-1 except the other open file (pre-opens, itself, free slots, far above the table: growth by a symbolic amount, sparse-array model) is atomic: on success the file is under the target only, on failure still under the source, never closed, other descriptors unaffected. "
             "Read/write/seek content and OS file semantics are outside the claim."),
    "C17": dict(level="model_checking", engine="gosym", technique=E1_TECH, design_ref="DESIGN.md §5 C17",
        text="For all 2^80 path_open flag words (dirflags, oflags, fdflags, rights) and all 2^32 Oflag words, what a read-only mount forwards to the wrapped file system contains none of "
             "O_WRONLY|O_RDWR|O_CREAT|O_TRUNC or the open is refused; every mutating FS/File method of ReadFS, readFile and AdaptFS fails without reaching the wrapped object (recording stub; the opened path is a file or a directory, opened with or without O_DIRECTORY). "
             "What the kernel does with the remaining flags is outside the claim."),
    "C10": dict(level="model_checking", engine="gosym", technique=E1_TECH, design_ref="DESIGN.md §5 C10",
        text="Sequential refinement of an atomic name registry: every history of 0..3 instantiations over names {anonymous, a, b} (duplicates included) followed by every pair of operations out of "
             "{instantiate, close an instance with any exit code, close the store, register function types} is executed on the real Store/ModuleInstance code; after each step lookups equal a ghost map, "
             "the module list is doubly linked and holds exactly the open instances, failed duplicate instantiation leaves the owner registered, close is idempotent with exactly one notification, "
             "and every entry point after store close returns an error (no Go panic). Interleavings of goroutines inside one operation are outside this claim (operations are atomic under Store.mux)."),
    "C12": dict(level="model_checking", engine="gosym", technique=E1_TECH, design_ref="DESIGN.md §5 C12",
        text="For every declared (min, optional max) and every configured limit <= 65536, newMemorySizer+Memory.Validate accept or reject identically with memoryCapacityFromMax on or off, with equal min/max and min <= cap <= max <= limit. "
             "Cache-key soundness at the front end: the decode-time options outside the module identity (capacity-from-max, DWARF, custom sections; 2^3 settings) x 6 program shapes that access memory around memory.grow "
             "(direct, in a callee, in an if arm, in a loop): the SSA compiled under each setting is evaluated in the most general instance (memory base moves at every grow) and agrees with the interpreter for all arguments, sizes 0..8 pages and contents - "
             "so an entry compiled under one setting is valid under any other. Cache hit == fresh compile: two real wazevo engines sharing a file cache; a module with memory, passive data and memory.init/data.drop compiled by one and obtained through the cache-hit path by the other, for listeners none / all-nil factory / subset and both termination settings: same machine code, function offsets, termination flag and module-context layout. "
             "Custom allocators and in-memory cache sharing between runtimes are outside this claim."),
    "C19": dict(level="model_checking", engine="gosym", technique=E1_TECH, design_ref="DESIGN.md §5 C19",
        text="From a module configuration built by 0..3 WithEnv calls (real append capacities via a model of runtime.growslice), two sibling derivations and one grandchild derivation by arbitrary With... calls "
             "(symbolic strings, keys colliding or not) leave parent and earlier child deeply unchanged (backing arrays compared); same for FSConfig mounts (slices, map, preopens copies) and every RuntimeConfig With.... "
             "Socket configuration: siblings and grandchild of bases with 0..5 listeners (symbolic ports). Instantiation: Runtime.InstantiateModule (real runtime on the interpreter, binary with or without a module name, context with or without a socket configuration) and toSysContext leave every field of the configuration unchanged. "
             "Data races between goroutines are outside the claim."),
    "C02": dict(level="model_checking", engine="gosym", technique=E1_TECH, design_ref="DESIGN.md §5 C02",
        text="Interpreter side, through the real decode/validate/compile/instantiate/call pipeline: each of the 23 scalar load/store instructions, for all 2^32 base addresses, all 2^32 static offsets "
             "(patched symbolically into the lowered operation), all memory sizes 0..65536 pages (symbolic 64-bit length) and contents, traps with out-of-bounds iff base+offset+width > size, leaves memory unchanged on trap "
             "and otherwise touches exactly [ea, ea+width); memory.copy/init for all operands, memory.fill for lengths 0..9. SIMD and atomic accesses are outside the claim."),
    "C05": dict(level="model_checking", engine="gosym", technique=E1_TECH, design_ref="DESIGN.md §5 C05",
        text="Interpreter side, through the real pipeline (binary -> DecodeModule -> Validate -> interpreter compiler -> callNativeFunc): every scalar integer instruction (i32/i64 arithmetic, bit, shift/rotate, comparison, "
             "clz/ctz/popcnt, extensions, wrap, reinterpret), every f32/f64 binary instruction incl. min/max/copysign and comparisons, abs/neg/ceil/floor/trunc/sqrt, all 16 trapping and saturating float-to-int truncations "
             "and all int-to-float conversions, demote and promote equal the specification for ALL operand values (floats via the SMT floating-point theory; any arithmetic NaN accepted where the specification yields NaN). "
             "Machine level (L2): the integer instructions with operands from parameters (71 programs) and with a constant operand (immediates, strength reduction; constants on the right AND on the left; every i32/i64 comparison with a constant on either side consumed as a value, by select and by if) are compiled by the real wazevo front end and amd64 back end "
             "and the reference evaluator of the final machine instructions is compared with the interpreter for all operand values. A v128 subset at machine level (family T6, 112 programs: bitwise incl. not/andnot/bitselect, i8x16..i64x2 add/sub, i16x8/i32x4/i64x2 shifts with run-time counts and constant counts at and beyond the lane width, lane replace (parameter and fused load) and extract for every lane shape): machine code == interpreter for all lane values. "
             "f32/f64.nearest, the other v128 instructions, floating point at machine level, the byte encoder and arm64 are outside this claim."),
    "C08": dict(level="model_checking", engine="gosym", technique=E1_TECH, design_ref="DESIGN.md §5 C08",
        text="Interpreter side: for every stack-based host function signature of 0..3 params and 0..2 results over {i32,i64,f32,f64} and all values, the host receives exactly the guest's values and guest and Go caller "
             "(Call and CallWithStack) receive exactly the host's results; reflection-defined host functions (a model of the reflect calls callGoFunc makes) for four representative signatures; api Encode/Decode round trips. "
             "Machine level: the real amd64 CompileGoFunctionTrampoline for 6 signatures with register- and stack-passed parameters of every type is evaluated by the machine-instruction evaluator: at the exit to Go the host's stack holds exactly "
             "the guest's arguments in order, and the trampoline returns exactly the host's results. The real amd64 Go->guest entry preamble for 7 signatures (register- and stack-passed parameters and results of every type): every parameter reaches its register or stack slot with exactly the value Go passed (full width), the result slice holds exactly the callee's results, Go's stack and frame pointers are restored. "
             "The assembly entry point itself and the arm64 trampolines are outside this claim."),
    "C06": dict(level="model_checking", engine="gosym", technique=E1_TECH, design_ref="DESIGN.md §5 C06",
        text="Interpreter side, real pipeline: a guest function that first writes memory and a global and then fails in one of 8 ways (unreachable, integer divide by zero, out-of-bounds load, unbounded recursion to the "
             "call-stack ceiling, host panic with sys.ExitError of any code, host panic with an error, with a string, Go run-time error inside the host function), directly or nested guest->host->guest, for all argument values: "
             "the caller gets the documented error kind, earlier effects persist, the call engine's stack and frames are empty, the same function object fails the same way again and the instance keeps computing correctly. "
             "Cross-module: a call made on module app that runs a function imported from module lib which reaches an exiting host function (proc_exit-like) by a direct call or through lib's table: the host function is handed lib, lib is closed, app stays open, registered and computing. "
             "wazevo's native unwinding, stack growth and register save areas are outside this claim."),
    "C07": dict(level="model_checking", engine="gosym", technique=E1_TECH, design_ref="DESIGN.md §5 C07",
        text="Interpreter side, compiled with close-on-context-done: for 10 cycle shapes (loop br / br_if / br_table, nested loops, self and mutual recursion, return_call self and mutual, call_indirect and "
             "return_call_indirect cycles) with every branch condition symbolic, a module closed before the cycle ends the call with the exit error for its cause within a step budget (exceeding the budget is the violation, replayed "
             "natively as a hang); a close arriving from a host callback at round 0..2 stops the guest at the next check; a call with an already-done context - a hand-written one, a real context.WithCancel, and a real context.WithCancelCause cancelled with a custom cause - returns the matching exit code and closes the module. "
             "The watcher goroutine is not scheduled in the model (its effect is applied explicitly); Cycle shapes include switch-in-loop forms (the loop repeated only through a br_table whose first label is a block, or as the default). Cross-module: each cycle shape running in a function imported from another module, entered directly (depth 1) or through another function of that module (depth 2), stops when the module the call was made on is closed. Compiler front end: for each cycle shape (incl. tail calls; with and without imported functions) the optimised SSA compiled with close-on-context-done leaves through the exit-code check within the step bound once the module is closed, "
             "for all branch conditions. Wall-clock promptness, the scheduling of the watcher goroutine (the moment at which it runs) and the native call engine are outside this claim."),
    "C20": dict(level="model_checking", engine="gosym", technique=E1_TECH, design_ref="DESIGN.md §5 C20",
        text="Interpreter side: guest f -> guest g -> host h with recording listeners, all parameter/result values and the trap decision symbolic: the event log is well nested with exactly one before and one after/abort per call, "
             "carries the actual parameters and results, the stack iterator lists the real chain callee-outward at every before-event, results equal the listener-free run; recursion to every depth 0..39 followed by a trap "
             "gives every frame its abort. Compiler front end: with listeners compiled in, the optimised SSA of f -> g (g leaving through 8 kinds of exit incl. br_table and early returns) emits exactly the before/after events of the interpreter, for all parameter values. "
             "Module identity (the cache key that decides whether compiled code with a given listener set is reused): for 1..18 functions and ANY two listener subsets and termination settings, equal SHA-256 input streams imply equal settings (digest model records the stream; SHA-256 assumed collision-free). "
             "wazevo's listener trampolines (machine code) and native stack iterator are outside this claim."),
    "C15": dict(level="model_checking", engine="gosym", technique=E1_TECH, design_ref="DESIGN.md §5 C15",
        text="Each of the 46 exported WASI functions is run with arbitrary argument words on a real store-registered instance whose memory is arbitrary (0..65536 pages, symbolic contents) over a file system stub "
             "that answers arbitrarily within the sys.FS/File contract: a Go run-time panic (index, slice, nil, map, conversion) on any path is a violation, the result is an errno or proc_exit's exit error, "
             "allocations stay within 16x memory + 1 MiB (per-allocation obligation), the preopen stays in the table. Loop counts (iovecs, subscriptions, path bytes, dirents) are <= 1-2 or so large that the range "
             "cannot fit the memory (including products that wrap 32 bits); the range in between is outside the claim. fd_renumber to any target descriptor is atomic (see C16). Memory-region non-interference per function is not yet asserted."),
    "C18": dict(level="model_checking", engine="gosym", technique=E1_TECH + " (self-composition: two contexts, host sources unconstrained)", design_ref="DESIGN.md §5 C18",
        text="Two system contexts built by the real NewModuleConfig().toSysContext(): every host source the default configuration does not replace (time.now, sleep, OS entropy) is an unconstrained symbol or cuts the path in the executor, "
             "so equality of the two contexts' readings is non-interference: wall clock and monotonic clock equal the documented fixed sequence for the first 3 readings, random bytes are equal, no args/environ, "
             "stdin empty, stdout discards, nothing pre-opened. math/rand's generator is executed from source (seed 42); Contexts built LATER from the same configuration value (and from a derivation of it), after earlier instances consumed readings, start from the same random bytes and clock values. poll_oneoff with fd_read subscriptions on two different files gives the same events in the same order in two fresh instances, under every iteration order of Go maps (explored as permutations). Readings beyond the third and whole-guest traces are outside the claim."),
    "C04": dict(level="model_checking", engine="gosym", technique=E1_TECH, design_ref="DESIGN.md §5 C04",
        text="Constant-expression capture: for every value type, any initial and live value and both kinds of exporting engine (globals kept by the engine or not), GlobalInstance.initialize and executeConstExpressionI32 "
             "capture the imported global's current value; what validateConstExpression accepts names an in-range global of the expected type / in-range function. Through the real pipeline on the interpreter: a grid of "
             "exporter/importer memory limits and global types/mutabilities is accepted exactly per the import-matching relation, and afterwards stores, memory.grow and global.set through one instance are observed through the other "
             "(all addresses/values symbolic). Function references in a table shared by two instances of one compiled module and a separately compiled importer, and a directly imported function: whoever calls and however (call_indirect, return_call_indirect, call, return_call), the callee runs in the instance that defined it (its global changes, nobody else's), for all values. "
             "Function import types: a function imported directly or through a re-exporting forwarder (whose imports of function, memory and function come in all 6 orders) with 4 declared types is accepted iff the declared type is the function's. "
             "An importer's active element segment writes the shared table item by item (ref.func installs, ref.null clears - known finding: null items are skipped). "
             "Table import limit matching, failed-instantiation rollback (see C10) and the compiler side are outside this claim."),
    "C11": dict(level="model_checking", engine="gosym", technique=E1_TECH, design_ref="DESIGN.md §5 C11",
        text="Two instances of ONE compiled module (the same wasm.Module and compiled code; active and passive data segments, mutable global, table with an element) through the real pipeline on the interpreter, the second created before or after "
             "one arbitrary mutating operation on the first (store / global.set / memory.grow / memory.fill / table.set / data.drop / memory.init+data.drop with symbolic operands): the second instance's memory at a symbolic address, global, "
             "memory size, table element and passive data segment (memory.init succeeds and copies it) are exactly as freshly instantiated, and a function installed from the passive ELEMENT segment by table.init and called by call_indirect runs in the instance that installed it. "
             "File descriptors/stdio isolation and the compiler side are outside this claim."),
    "C01": dict(level="translation_validation", engine="gosym", design_ref="DESIGN.md §3, §5 C01",
        technique="translation validation by symbolic execution: the real front end + SSA passes compile each generated program, a reference evaluator of the emitted SSA and the real interpreter run on the same symbolic inputs, z3 decides equality",
        text="For each program of a generated family (T1: 71 one-instruction integer/conversion/select programs; T1c: constant-operand programs; T3: 14 control-flow programs - if/else, br_if, br_table, loops with loop-carried values that are shifted, swapped and rotated on the back edge, globals, multi-value call, trap-after-effect) the binary is compiled by the real "
             "wazevo front end and optimisation passes and lowered by the real interpreter compiler; a reference evaluator of the optimised SSA and the real interpreter are then executed symbolically on the same arbitrary arguments, "
             "memory (0..65536 pages) and globals, and the solver decides that outcome kind, every result bit, final globals and final memory are equal for ALL input values. Program shape is enumerated, values are symbolic. "
             "Imported globals: a module importing two globals of another instance - distinct, or ONE global under two import indexes - reading and writing them in 6 short orders: SSA and interpreter agree on results and on the exporter's globals. "
             "Machine level (L2): the same families are compiled further by the real amd64 back end (instruction selection, register allocation, prologue/epilogue, block-argument moves, jump tables) and a reference evaluator of the "
             "final machine instruction list (post-regalloc `instruction` structs, before byte encoding) is compared with the interpreter in the same way. "
             "The byte encoder (instr_encoding.go), the arm64 back end, the native call engine (entry preamble, stack growth, unwinding), SIMD, atomics, tables and multi-call histories are outside this claim.",
        note="Trusted: the reference SSA evaluator (harness/internal/engine/wazevo/frontend/ssaeval.go: the meaning given to each SSA opcode and to the module/execution context layout), the reference evaluator of amd64 machine "
             "instructions (harness/internal/engine/wazevo/backend/isa/amd64/l2eval.go: the meaning given to each instruction kind, flags, stack and ABI), gosym, z3. "
             "A construct the evaluator does not model makes the check fail as unsupported, never pass."),
})
CLAIMS["C13"] = dict(level="model_checking", engine="gosym", technique=E1_TECH + "; the file system is an environment model (ordinary Go code in harness/verifrt/fsmodel.go reached by redirecting the os calls) in which every directory-changing operation is a crash point; crash counterexamples are replayed on a real directory by killing a child process under strace at the same system call", design_ref="DESIGN.md §5 C13",
    text="Crash safety of adding an entry: the real fileCache.Add runs against a file-system model where create, write, sync, close, rename and remove are steps; for every content of 0..4 symbolic bytes delivered in 1 or 2 writes, every prior directory state (none / complete older entry / leftover temp file), every single failing step (incl. a short write) or failing content reader, and a crash before EVERY step: the final name holds nothing, the complete older entry or the complete new entry - never a partial one; on success Get returns exactly the content and Delete removes it. "
         "Concurrent writers of one key: writer B runs (completes, dies after its first write, or fails) while writer A is between its two writes - the visible entry is the complete content of one of them (checked on the model and, natively, on a real directory). "
         "Entries on load: an entry written by the real serializeCompiledModule for an arbitrary module (0..2 symbolic function offsets, 0..3 code bytes, optional source map) by a wazero of ANY version string of length 0..12 and cut to ANY length is used by the real getCompiledModuleFromCache/deserializeCompiledModule only if the version is ours and what was read equals what was written; otherwise it is reported or deleted; no Go run-time panic. "
         "Outside the claim: determinism of code generation (same module -> same bytes), loss of un-synced data at power failure (crash = process death: written data persists), torn writes inside one system call, interleavings of concurrent writers other than 'B inside A's copy', corrupted (as opposed to truncated) entries.")
CLAIMS["C02"]["text"] += (" Compiler front end (L1): the optimised wazevo SSA of 23 load/store kinds x boundary static offsets and of 8 reuse shapes on the same base value "
    "(two accesses, narrow-then-wide, across a call that may grow the memory, across memory.grow, store-then-load, across an if/else join, an if WITHOUT else followed by an access, an if/else with three independent offsets (then / else / after the join), a base that is i32.wrap_i64 of an i64 parameter accessed in both arms and after the join, constant base bound to a local, memory.size/grow) is evaluated by a reference SSA evaluator in which "
    "every dereference is an obligation (inside [0,size) of the CURRENT memory epoch - a call or grow moves the memory - or the module/execution context) and compared with the interpreter for all bases, sizes 0..65536 pages and contents. "
    "Machine level (L2): the same single-access and reuse families compiled by the real amd64 back end; the reference evaluator of the final machine instructions makes every dereference (address modes with folded constants and "
    "extended index registers included) an obligation and compares with the interpreter. The byte encoder, arm64, SIMD and atomic accesses are outside the claim.")
CLAIMS["C14"]["text"] += " Compiler front end: memory.size / memory.grow / memory.size compiled to SSA agrees with the interpreter for every size and delta (known finding at 65536 pages)."

CLAIMS["C01"]["text"] += (" Imported globals across calls: the same programs with a call to a function of the exporting instance that changes its global in between (nothing read before a call is reused after it). "
    "History independence: for every ordered pair of a six-member control-flow + memory family, the second function compiled AFTER the first by one shared front-end compiler and SSA builder (as the engine compiles the functions of a module) agrees with the interpreter.")
CLAIMS["C02"]["text"] += " Machine level also: v128.load / v128.store and the v128 lane loads/stores (8/16/32/64-bit lanes) and scalars fused from loads into lane inserts, for every memory size below 4 GiB."
CLAIMS["C03"]["text"] += (" Reserved-index encodings: memory.size / memory.grow / memory.fill / memory.copy / memory.init with each reserved byte written canonically or as an over-long LEB128 zero: "
    "whatever the validator decides, an accepted module runs on the interpreter and through the compiler front end exactly as validated.")
CLAIMS["C06"]["text"] += (" Start functions: Runtime.InstantiateModule of a module whose _start ends in an exit raised by a host function (panic only, or closing the caller first), for every exit code: "
    "the caller gets the exit error (none for code 0), a returned instance is closed, its name is free again, a bystander instance keeps working and the same instantiation can be repeated with the same outcome.")
CLAIMS["C07"]["text"] += (" Watcher: closeModuleOnCanceledOrTimeout run synchronously on five kinds of done context (cancelled, cancelled with a custom cause, derived from one, past a deadline with a custom cause, hand-written) "
    "with the stop channel open sets the closed word with the exit code of the context's error.")

NOT_APPLICABLE = {
    "C09": "Object lifetime under the Go collector, finalizers and munmap of code segments is a property of the Go run-time system, not of a function's "
           "input/output relation; gosym's heap has no collector and the emitted code has no notion of reclamation, so no solver query expresses it (DESIGN.md §6).",
}

ALL = ["C%02d" % i for i in range(1, 21)]


def manifest():
    checks = []
    for pid in ALL:
        if pid not in CLAIMS:
            continue
        c = CLAIMS[pid]
        checks.append(dict(
            property_id=pid,
            quick_cmd="./check %s --tier quick" % pid,
            thorough_cmd="./check %s --tier thorough" % pid,
            evidence_file="/verif/evidence/%s.json" % pid,
            replay_cmd_template="./check %s --replay {path}" % pid,
            engine=c["engine"],
            level_claimed=dict(category=c["level"], text=c["text"], design_ref=c["design_ref"]),
            level_note=c.get("note", E1_NOTE),
            technique=c["technique"]))
    na = []
    for pid in ALL:
        if pid in CLAIMS:
            continue
        na.append(dict(property_id=pid, reason=NOT_APPLICABLE.get(pid, "check not built yet in this session (planned in DESIGN.md §5); not claimed until it has run clean")))
    return dict(
        version=1,
        setup_cmd="./setup.sh",
        hooks=dict(guard="verif", enable="harnesses are injected with go/packages and `go test -overlay` under -tags verif; nothing is written into /repo",
                   baseline_off_cmd="cd /repo && go build ./... && go test -vet=off -count=1 ./...", source_commits=[], add_only=True),
        engines=[
            dict(name="gosym", path="/verif/gosym", serves_properties=[p for p in ALL if CLAIMS.get(p, {}).get("engine") == "gosym"],
                 kind_free_text="Go SSA -> SMT-LIB2 forking symbolic executor written for this task (z3 -in), harnesses in /verif/harness overlaid into the repository packages"),
            dict(name="wzsym", path="/verif/wzsym", serves_properties=[p for p in ALL if CLAIMS.get(p, {}).get("engine") == "wzsym"],
                 kind_free_text="translation validation of wazevo SSA / amd64 machine code / interpreter ops against a reference semantics, z3py"),
        ],
        checks=checks,
        notes="See DESIGN.md. Exit 0 = held on everything explored; exit 1 + VIOLATION line = reproduced counterexample; exit 2 + ERROR line = the machinery could not decide (never used to mean violated).",
        not_applicable=na)


if __name__ == "__main__":
    json.dump(manifest(), open(os.path.join(VERIF, "MANIFEST.json"), "w"), indent=1)
    print("MANIFEST.json written:", [c["property_id"] for c in manifest()["checks"]])

package main

import (
	"fmt"
	"go/constant"
	"go/types"
	"math"

	"golang.org/x/tools/go/ssa"
)

type Deferred struct {
	Fn   Value // FuncV
	Args []Value
}

type Frame struct {
	fn        *ssa.Function
	block     *ssa.BasicBlock
	prev      *ssa.BasicBlock
	pc        int
	env       map[ssa.Value]Value
	defers    []Deferred
	mode      int // 0 normal, 1 running defers on normal return path, 2 unwinding a panic
	isDefer   bool // frame is a deferred call
	retTo     ssa.Value // call instruction in the caller that receives the result (nil: discard)
	backEdges map[int]int // block index -> times entered via back edge
	backSym   map[int]int // block index -> st.symDecisions at the last back edge
	result    Value
	nativeRet string // if set: on return call native continuation with this tag
	recovered bool
}

func (f *Frame) clone() *Frame {
	c := *f
	c.env = make(map[ssa.Value]Value, len(f.env)+8)
	for k, v := range f.env {
		c.env[k] = v
	}
	c.defers = append([]Deferred(nil), f.defers...)
	if f.backEdges != nil {
		c.backEdges = make(map[int]int, len(f.backEdges))
		for k, v := range f.backEdges {
			c.backEdges[k] = v
		}
	}
	if f.backSym != nil {
		c.backSym = make(map[int]int, len(f.backSym))
		for k, v := range f.backSym {
			c.backSym[k] = v
		}
	}
	return &c
}

type PanicInfo struct {
	Val     Value  // the panic value (Iface)
	Runtime string // non-empty for Go run-time panics: kind (index, slice, nil, divide, assert, …)
	Site    string // function + position where raised
}

type Obligation struct {
	ID      string `json:"id"`
	Kind    string `json:"kind"` // assert | panic | cover | alloc | unwind | deadlock
	Site    string `json:"site"`
	Msg     string `json:"msg"`
	Status  string `json:"status"` // unsat (holds) | sat | unknown | covered | uncovered
	Model   map[string]interface{} `json:"model,omitempty"`
	Known   string `json:"known,omitempty"` // matched known finding
	Expect  map[string]string `json:"expect,omitempty"`
}

type State struct {
	id      int
	frames  []*Frame
	heap    map[int]*Obj
	pc      []*Term
	decided map[int]bool
	concr   map[int]uint64
	panic_  *PanicInfo
	alloc   *Term
	done    bool
	steps   int
	forkTag string
	choices []string // human-readable record of Choose / decisions
	// mapOrderNondet: range over a map of 2 or 3 entries visits them in an arbitrary order (one path per permutation),
	// as Go leaves the order unspecified; off by default (insertion order)
	mapOrderNondet bool
	expects map[string]*Term // verifrt.Expected values
	sched   *Sched
	notes   []string
	budget  *Term // allocation budget (nil = none)
	inputLens  map[string]*Term
	extraTerms []*Term
	symDecisions int
	stepLimit    int    // verifrt.SetStepBudget: exceeding it is a non-termination violation
	stepMsg      string
	retry    bool // state was forked mid-instruction and re-executes it
	acctDone bool // allocation of the current instruction already accounted
}

var stateCounter int

func (st *State) clone() *State {
	stateCounter++
	c := &State{id: stateCounter, alloc: st.alloc, panic_: st.panic_, steps: st.steps, budget: st.budget, retry: true, acctDone: st.acctDone, symDecisions: st.symDecisions, stepLimit: st.stepLimit, stepMsg: st.stepMsg, mapOrderNondet: st.mapOrderNondet}
	c.frames = make([]*Frame, len(st.frames))
	for i, f := range st.frames {
		c.frames[i] = f.clone()
	}
	c.heap = make(map[int]*Obj, len(st.heap)+16)
	for k, v := range st.heap {
		c.heap[k] = v
	}
	c.pc = append([]*Term(nil), st.pc...)
	c.decided = make(map[int]bool, len(st.decided)+8)
	for k, v := range st.decided {
		c.decided[k] = v
	}
	c.concr = make(map[int]uint64, len(st.concr))
	for k, v := range st.concr {
		c.concr[k] = v
	}
	c.choices = append([]string(nil), st.choices...)
	c.notes = append([]string(nil), st.notes...)
	if st.expects != nil {
		c.expects = map[string]*Term{}
		for k, v := range st.expects {
			c.expects[k] = v
		}
	}
	if st.inputLens != nil {
		c.inputLens = map[string]*Term{}
		for k, v := range st.inputLens {
			c.inputLens[k] = v
		}
	}
	if st.sched != nil {
		c.sched = st.sched.clone()
	}
	// neither side owns the shared objects any more
	stateCounter++
	st.id = stateCounter
	return c
}

func (st *State) top() *Frame { return st.frames[len(st.frames)-1] }

var objCounter int

func (st *State) newObj(kind ObjKind, t types.Type, label string) *Obj {
	objCounter++
	o := &Obj{id: objCounter, kind: kind, owner: st.id, typ: t, label: label}
	st.heap[o.id] = o
	return o
}

func (st *State) obj(id int) *Obj {
	o := st.heap[id]
	if o == nil {
		panic(cutPath{fmt.Sprintf("dangling object id %d", id)})
	}
	return o
}

// wobj returns the object for writing (copy on write).
func (st *State) wobj(id int) *Obj {
	o := st.obj(id)
	if o.owner != st.id {
		o = o.clone(st.id)
		st.heap[id] = o
	}
	return o
}

// cutPath aborts the current path (unsupported feature, bound exceeded, …). The harness is then incomplete.
type cutPath struct{ why string }

// endPath ends the current path normally (e.g. failed Assume).
type endPath struct{ why string }

// ---- zero values and constants

func (ex *Exec) zero(t types.Type) Value {
	tb := ex.tb
	switch u := under(t).(type) {
	case *types.Basic:
		switch {
		case u.Info()&types.IsBoolean != 0:
			return tb.False()
		case u.Info()&types.IsString != 0:
			return Str{}
		case u.Kind() == types.UnsafePointer:
			return Ptr{}
		case u.Kind() == types.UntypedNil:
			return Ptr{}
		case u.Info()&types.IsComplex != 0:
			return Opaque{"complex"}
		default:
			w := scalarWidth(t)
			if w == 0 {
				panic("zero: unknown basic " + u.String())
			}
			return tb.Const(0, w)
		}
	case *types.Pointer:
		return Ptr{}
	case *types.Slice:
		return SliceV{Off: tb.Const(0, 64), Len: tb.Const(0, 64), Cap: tb.Const(0, 64)}
	case *types.Map:
		return MapV{}
	case *types.Chan:
		return ChanV{}
	case *types.Interface:
		return Iface{}
	case *types.Signature:
		return FuncV{}
	case *types.Struct:
		s := make(StructV, u.NumFields())
		for i := range s {
			s[i] = ex.zero(u.Field(i).Type())
		}
		return s
	case *types.Array:
		n := int(u.Len())
		a := make(ArrayV, n)
		if n > 0 {
			z := ex.zero(u.Elem())
			for i := range a {
				a[i] = z
			}
		}
		return a
	case *types.Tuple:
		tp := make(TupleV, u.Len())
		for i := range tp {
			tp[i] = ex.zero(u.At(i).Type())
		}
		return tp
	}
	panic(fmt.Sprintf("zero: unhandled type %s", t))
}

func (ex *Exec) constValue(c *ssa.Const) Value {
	tb := ex.tb
	if c.Value == nil {
		return ex.zero(c.Type())
	}
	t := c.Type()
	if b, ok := under(t).(*types.Basic); ok {
		switch {
		case b.Info()&types.IsBoolean != 0:
			return tb.Bool(constant.BoolVal(c.Value))
		case b.Info()&types.IsString != 0:
			return Str{S: constant.StringVal(c.Value)}
		case b.Info()&types.IsInteger != 0:
			w := scalarWidth(t)
			if b.Info()&types.IsUnsigned != 0 {
				return tb.Const(c.Uint64(), w)
			}
			return tb.Const(uint64(c.Int64()), w)
		case b.Info()&types.IsFloat != 0:
			f := c.Float64()
			if b.Kind() == types.Float32 {
				return tb.Const(uint64(math.Float32bits(float32(f))), 32)
			}
			return tb.Const(math.Float64bits(f), 64)
		}
	}
	panic(fmt.Sprintf("constValue: unhandled const %s of type %s", c, t))
}

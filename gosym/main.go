package main

import (
	"encoding/json"
	"flag"
	"fmt"
	"go/types"
	"os"
	"runtime/pprof"
	"sort"
	"strings"
	"time"

	"golang.org/x/tools/go/packages"
	"golang.org/x/tools/go/ssa"
	"golang.org/x/tools/go/ssa/ssautil"
)

type HarnessResult struct {
	Harness     string                            `json:"harness"`
	Package     string                            `json:"package"`
	Complete    bool                              `json:"complete"`
	Incomplete  []string                          `json:"incomplete,omitempty"`
	Paths       int                               `json:"paths"`
	PathsEnded  map[string]int                    `json:"paths_ended"`
	PathsCut    map[string]int                    `json:"paths_cut,omitempty"`
	Forks       int                               `json:"forks"`
	Instrs      int64                             `json:"instrs"`
	Functions   map[string]int64                  `json:"functions"`
	Queries     int                               `json:"queries"`
	QSat        int                               `json:"queries_sat"`
	QUnsat      int                               `json:"queries_unsat"`
	QUnknown    int                               `json:"queries_unknown"`
	SolverMs    float64                           `json:"solver_ms"`
	GetValueMs  float64                           `json:"get_value_ms"`
	GetValues   int                               `json:"get_values"`
	WallMs      float64                           `json:"wall_ms"`
	Obligations []*Obligation                     `json:"obligations"`
	Covers      map[string]bool                   `json:"covers"`
	CoverModels map[string]map[string]interface{} `json:"cover_models,omitempty"`
	Assumes     []string                          `json:"assumes,omitempty"`
	Stubs       []string                          `json:"stubs,omitempty"`
	Inputs      []string                          `json:"inputs"`
	Error       string                            `json:"error,omitempty"`
	Terms       int                               `json:"terms"`
	Shapes      int                               `json:"shapes"`
}

var allowedStdInit = map[string]bool{
	"errors": true, "io": true, "io/fs": true, "internal/oserror": true, "math": true, "math/bits": true,
	"encoding/binary": true, "unicode/utf8": true, "strings": true, "bytes": true, "sort": true, "path": true,
	"container/list": true, "context": true, "strconv": true, "sync": true, "sync/atomic": true, "time": false,
	"slices": true, "maps": true, "crypto": true, "crypto/sha256": true, "hash/crc32": true, "os": true, "cmp": true, "hash": true, "bufio": true,
}

func main() {
	var (
		dir      = flag.String("dir", "/repo", "module directory")
		pkgPat   = flag.String("pkg", "", "package pattern (relative to dir), e.g. ./internal/wasm")
		entries  = flag.String("entry", "", "comma-separated harness entry functions")
		overlayF = flag.String("overlay", "", "JSON file {virtual path: real path}")
		outF     = flag.String("out", "", "output JSON file (array of harness results)")
		knownF   = flag.String("known", "", "known findings JSON")
		solverB  = flag.String("solver", "z3", "solver binary")
		maxPaths = flag.Int("maxpaths", 20000, "path cap per harness")
		maxSteps = flag.Int("maxsteps", 2000000, "instruction cap per path")
		unwind   = flag.Int("unwind", 64, "loop unwinding bound per frame")
		feasTO   = flag.Int("feas-timeout", 10000, "feasibility query timeout ms")
		oblTO    = flag.Int("obl-timeout", 150000, "obligation query timeout ms")
		concrCap = flag.Int("concr-cap", 70, "maximum values when concretising one term")
		wall     = flag.Int("wall", 600, "wall time cap per harness, s")
		verbose  = flag.Int("v", 0, "verbosity")
		smtLog   = flag.String("smtlog", "", "write the SMT-LIB dialogue to this file")
		tags     = flag.String("tags", "verif", "build tags")
		fixF     = flag.String("fix", "", "force Choose values: name=value,name=value")
		tierF    = flag.String("tier", "quick", "quick|thorough (what verifrt.Thorough() reports)")
		cpuProf  = flag.String("cpuprofile", "", "write a CPU profile")
	)
	flag.Parse()
	if *cpuProf != "" {
		pf, _ := os.Create(*cpuProf)
		pprof.StartCPUProfile(pf)
		defer pprof.StopCPUProfile()
	}

	overlay := map[string][]byte{}
	if *overlayF != "" {
		raw, err := os.ReadFile(*overlayF)
		if err != nil {
			fatal(err)
		}
		var m map[string]string
		if err := json.Unmarshal(raw, &m); err != nil {
			fatal(err)
		}
		for virt, real := range m {
			b, err := os.ReadFile(real)
			if err != nil {
				fatal(err)
			}
			overlay[virt] = b
		}
	}
	cfg := &packages.Config{
		Mode:       packages.LoadAllSyntax,
		Dir:        *dir,
		BuildFlags: []string{"-tags=" + *tags},
		Overlay:    overlay,
		Env:        append(os.Environ(), "GOFLAGS=-mod=mod", "GOPROXY=off", "GOSUMDB=off", "GOTOOLCHAIN=local"),
	}
	t0 := time.Now()
	pkgs, err := packages.Load(cfg, *pkgPat)
	if err != nil {
		fatal(err)
	}
	nerr := 0
	packages.Visit(pkgs, nil, func(p *packages.Package) {
		for _, e := range p.Errors {
			fmt.Fprintf(os.Stderr, "load error: %v\n", e)
			nerr++
		}
	})
	if nerr > 0 {
		fatal(fmt.Errorf("%d package load errors (harness does not compile against the tree?)", nerr))
	}
	prog, spkgs := ssautil.AllPackages(pkgs, ssa.InstantiateGenerics)
	prog.Build()
	if len(spkgs) == 0 || spkgs[0] == nil {
		fatal(fmt.Errorf("no SSA package"))
	}
	mainPkg := spkgs[0]
	loadMs := float64(time.Since(t0).Milliseconds())
	if *verbose > 0 {
		fmt.Fprintf(os.Stderr, "loaded %s in %.0f ms\n", mainPkg.Pkg.Path(), loadMs)
	}

	var known []KnownFinding
	if *knownF != "" {
		raw, err := os.ReadFile(*knownF)
		if err == nil {
			var kf struct {
				Findings []KnownFinding `json:"findings"`
			}
			if err := json.Unmarshal(raw, &kf); err != nil {
				fatal(fmt.Errorf("known findings: %v", err))
			}
			known = kf.Findings
		}
	}

	var results []*HarnessResult
	for _, entry := range strings.Split(*entries, ",") {
		entry = strings.TrimSpace(entry)
		if entry == "" {
			continue
		}
		fn := mainPkg.Func(entry)
		if fn == nil {
			results = append(results, &HarnessResult{Harness: entry, Package: mainPkg.Pkg.Path(), Error: "entry function not found"})
			continue
		}
		fix := map[string]uint64{}
		for _, kv := range strings.Split(*fixF, ",") {
			if k, v, ok := strings.Cut(kv, "="); ok {
				var n uint64
				fmt.Sscan(v, &n)
				fix[k] = n
			}
		}
		c := Config{Fix: fix, Thorough: *tierF == "thorough", MaxPaths: *maxPaths, MaxSteps: *maxSteps, Unwind: *unwind, FeasTimeoutMs: *feasTO, OblTimeoutMs: *oblTO,
			ConcrCap: *concrCap, Deadline: time.Now().Add(time.Duration(*wall) * time.Second), Verbose: *verbose}
		log := ""
		if *smtLog != "" {
			log = *smtLog + "." + entry + ".smt2"
		}
		res := runHarness(prog, mainPkg, fn, c, *solverB, known, log)
		results = append(results, res)
	}
	out, _ := json.MarshalIndent(results, "", " ")
	if *outF != "" {
		if err := os.WriteFile(*outF, out, 0o644); err != nil {
			fatal(err)
		}
	} else {
		os.Stdout.Write(out)
		fmt.Println()
	}
}

func fatal(err error) {
	fmt.Fprintf(os.Stderr, "gosym: %v\n", err)
	os.Exit(2)
}

func runHarness(prog *ssa.Program, mainPkg *ssa.Package, fn *ssa.Function, cfg Config, solverBin string, known []KnownFinding, smtLog string) (res *HarnessResult) {
	t0 := time.Now()
	tb := NewTB()
	args := []string{"-in"}
	if strings.Contains(solverBin, "cvc5") {
		args = []string{"--incremental", "--lang=smt2"}
	}
	sol, err := NewSolver(tb, solverBin, args, smtLog)
	if err != nil {
		return &HarnessResult{Harness: fn.Name(), Error: err.Error()}
	}
	defer sol.Close()
	ex := &Exec{tb: tb, sol: sol, prog: prog, cfg: cfg, entry: fn.Name(),
		obls: map[string]*Obligation{}, covers: map[string]bool{}, coverModel: map[string]map[string]interface{}{},
		pathsCut: map[string]int{}, pathsEnded: map[string]int{}, funcInstrs: map[string]int64{},
		assumes: map[string]bool{}, stubs: map[string]bool{}, known: known,
		globals: map[*ssa.Global]int{}, inputArrs: map[string]*Term{},
	}
	res = &HarnessResult{Harness: fn.Name(), Package: mainPkg.Pkg.Path()}
	defer func() {
		if r := recover(); r != nil {
			res.Error = fmt.Sprintf("internal error: %v", r)
			ex.fill(res, t0)
		}
	}()
	stateCounter++
	st := &State{id: stateCounter, heap: map[int]*Obj{}, decided: map[int]bool{}, concr: map[int]uint64{}, alloc: tb.Const(0, 64)}
	ex.runInits(st, mainPkg)
	// covers declared in the harness source are found dynamically; run
	st.frames = nil
	st.done = false
	st.alloc = tb.Const(0, 64)
	ex.instrs = 0
	ex.funcInstrs = map[string]int64{}
	ex.pushFrame(st, FuncV{Fn: fn}, nil, nil)
	ex.push(st)
	ex.runAll()
	ex.fill(res, t0)
	return res
}

func (ex *Exec) fill(res *HarnessResult, t0 time.Time) {
	res.Paths = ex.paths
	res.PathsEnded = ex.pathsEnded
	res.PathsCut = ex.pathsCut
	res.Forks = ex.forks
	res.Instrs = ex.instrs
	res.Functions = ex.funcInstrs
	res.Queries = ex.sol.Queries
	res.QSat, res.QUnsat, res.QUnknown = ex.sol.Sat, ex.sol.Unsat, ex.sol.Unknown
	res.SolverMs = ex.sol.WallMs + ex.sol.GetValMs
	res.GetValueMs = ex.sol.GetValMs
	res.GetValues = ex.sol.GetVals
	res.WallMs = float64(time.Since(t0).Milliseconds())
	for _, k := range ex.oblOrder {
		res.Obligations = append(res.Obligations, ex.obls[k])
	}
	res.Covers = ex.covers
	res.CoverModels = ex.coverModel
	for a := range ex.assumes {
		res.Assumes = append(res.Assumes, a)
	}
	sort.Strings(res.Assumes)
	for a := range ex.stubs {
		res.Stubs = append(res.Stubs, a)
	}
	sort.Strings(res.Stubs)
	for _, t := range ex.inputs {
		res.Inputs = append(res.Inputs, t.name)
	}
	for _, n := range ex.inputArrOrder {
		res.Inputs = append(res.Inputs, n+"[]")
	}
	res.Incomplete = ex.incomplete
	res.Complete = len(ex.incomplete) == 0 && res.Error == ""
	res.Terms = len(ex.tb.all)
	res.Shapes = len(ex.shapes)
}

// runInits executes the package initialisers of the harness package's import closure that are
// allow-listed (repository packages and a few std packages), dependencies first.
func (ex *Exec) runInits(st *State, mainPkg *ssa.Package) {
	var order []*ssa.Package
	seen := map[*types.Package]bool{}
	var visit func(p *types.Package)
	visit = func(p *types.Package) {
		if seen[p] {
			return
		}
		seen[p] = true
		for _, imp := range p.Imports() {
			visit(imp)
		}
		if sp := ex.prog.Package(p); sp != nil {
			order = append(order, sp)
		}
	}
	visit(mainPkg.Pkg)
	for _, sp := range order {
		path := sp.Pkg.Path()
		if !(strings.HasPrefix(path, "github.com/tetratelabs/wazero") || allowedStdInit[path]) {
			continue
		}
		initFn := sp.Func("init")
		if initFn == nil || initFn.Blocks == nil {
			continue
		}
		ex.runInitOne(st, initFn, path)
	}
}

func (ex *Exec) runInitOne(st *State, initFn *ssa.Function, path string) {
	defer func() {
		if r := recover(); r != nil {
			switch e := r.(type) {
			case cutPath:
				fmt.Fprintf(os.Stderr, "gosym: init of %s cut: %s\n", path, e.why)
				st.frames = nil
				st.panic_ = nil
			case endPath:
				st.frames = nil
			default:
				fmt.Fprintf(os.Stderr, "gosym: init of %s: internal error at %s: %v\n", path, st.whereDetail(ex), r)
				st.frames = nil
				st.panic_ = nil
			}
		}
	}()
	st.frames = nil
	st.done = false
	ex.pushFrame(st, FuncV{Fn: initFn}, nil, nil)
	ex.lenient = true
	defer func() { ex.lenient = false }()
	nwork := len(ex.work)
	for !st.done {
		ex.stepSafe(st)
		if len(ex.work) != nwork {
			// a fork during init: drop the alternative (inits must be deterministic)
			ex.work = ex.work[:nwork]
			fmt.Fprintf(os.Stderr, "gosym: init of %s forked; alternative dropped\n", path)
		}
	}
	if st.panic_ != nil {
		fmt.Fprintf(os.Stderr, "gosym: init of %s panicked: %s\n", path, ex.describe(st, st.panic_.Val))
		st.panic_ = nil
		// remove the obligation recorded by uncaughtPanic
		ex.obls = map[string]*Obligation{}
		ex.oblOrder = nil
	}
}

func (ex *Exec) stepSafe(st *State) {
	defer func() {
		if r := recover(); r != nil {
			if _, ok := r.(retryStep); ok {
				return
			}
			if ex.lenient {
				// package initialisers: an instruction the executor cannot perform yields an opaque value
				if _, isEnd := r.(endPath); !isEnd && len(st.frames) > 0 {
					f := st.top()
					if f.mode == 0 && f.pc < len(f.block.Instrs) {
						ins := f.block.Instrs[f.pc]
						switch ins.(type) {
						case *ssa.If, *ssa.Jump, *ssa.Return, *ssa.Panic:
						default:
							why := fmt.Sprint(r)
							if c, ok := r.(cutPath); ok {
								why = c.why
							}
							if ex.cfg.Verbose > 0 {
								fmt.Fprintf(os.Stderr, "gosym: init: %s: %s -> opaque (%s)\n", f.fn, ins, why)
							}
							if v, ok := ins.(ssa.Value); ok {
								f.env[v] = Opaque{Why: "init: " + why}
							}
							f.pc++
							return
						}
					}
				}
			}
			panic(r)
		}
	}()
	ex.step(st)
}

// extractModel reads the values of want (named inputs, expected values, input lengths) and of the
// bytes of named array inputs at every index that occurs in the path.
func (ex *Exec) extractModel(st *State, want []*Term) map[string]interface{} {
	m := map[string]interface{}{}
	vals, err := ex.sol.GetValues(want)
	if err != nil {
		m["_error"] = err.Error()
		return m
	}
	val := map[int]uint64{}
	for i, t := range want {
		val[t.id] = vals[i]
	}
	for _, t := range ex.inputs {
		if v, ok := val[t.id]; ok {
			m[t.name] = fmt.Sprint(v)
		}
	}
	exp := map[string]string{}
	for n, t := range st.expects {
		if v, ok := val[t.id]; ok {
			exp[n] = fmt.Sprint(v)
		}
	}
	if len(exp) > 0 {
		m["_expected"] = exp
	}
	if len(ex.inputArrOrder) == 0 {
		return m
	}
	// candidate indices
	idxSet := map[uint64]bool{}
	for _, t := range ex.indexTerms(st) {
		if v, ok := val[t.id]; ok {
			idxSet[v] = true
		}
	}
	var idxs []uint64
	for v := range idxSet {
		idxs = append(idxs, v)
	}
	sort.Slice(idxs, func(i, j int) bool { return idxs[i] < idxs[j] })
	if len(idxs) > 4096 {
		idxs = idxs[:4096]
	}
	for _, name := range ex.inputArrOrder {
		arr := ex.inputArrs[name]
		am := map[string]interface{}{}
		if l, ok := st.inputLens[name]; ok {
			if v, ok := val[l.id]; ok {
				am["len"] = fmt.Sprint(v)
			} else if l.IsConst() {
				am["len"] = fmt.Sprint(l.c)
			}
		}
		bytes := map[string]uint64{}
		if len(idxs) > 0 {
			var sel []*Term
			for _, i := range idxs {
				sel = append(sel, ex.tb.mk(OSelect, BV(8), []*Term{arr, ex.tb.Const(i, 64)}, 0, "", 0, 0))
			}
			if vs, err := ex.sol.GetValues(sel); err == nil {
				for k, i := range idxs {
					if vs[k] != 0 {
						bytes[fmt.Sprint(i)] = vs[k]
					}
				}
			}
		}
		am["bytes"] = bytes
		m[name] = am
	}
	return m
}

// indexTerms collects the index terms of every select/store (and BV64 arguments of bulk-copy lambdas)
// reachable from the path condition and the current heap arrays.
func (ex *Exec) indexTerms(st *State) []*Term {
	seen := map[int]bool{}
	var out []*Term
	var stack []*Term
	stack = append(stack, st.pc...)
	stack = append(stack, st.extraTerms...)
	for _, o := range st.heap {
		if o.kind == ObjSmt && o.Arr != nil {
			stack = append(stack, o.Arr)
		}
	}
	for len(stack) > 0 {
		t := stack[len(stack)-1]
		stack = stack[:len(stack)-1]
		if seen[t.id] {
			continue
		}
		seen[t.id] = true
		switch t.op {
		case OSelect, OStore:
			out = append(out, t.args[1])
		case ORaw:
			if t.sort.K == KArr {
				for _, a := range t.args {
					if a.sort.K == KBV && a.W() == 64 {
						out = append(out, a)
					}
				}
			}
		}
		stack = append(stack, t.args...)
	}
	return out
}

package main

// A model of the slice of package reflect that wazero's reflection-based host functions use
// (internal/wasm/gofunc.go): TypeOf/ValueOf/New, Type.{NumIn,In,NumOut,Out,Kind,Elem,Implements,String},
// Value.{Type,Kind,Elem,Set,SetInt,SetUint,SetFloat,Int,Uint,Float,Call,IsValid,IsNil,Interface}.

import (
	"fmt"
	"go/token"
	"go/types"

	"golang.org/x/tools/go/ssa"
)

// RType is the executor's reflect.Type (held inside an Iface whose dynamic type is rtypeMarker).
type RType struct{ T types.Type }

// RValue is the executor's reflect.Value. Addressable values read and write through Addr.
type RValue struct {
	T    types.Type
	V    Value
	Addr *Ptr
}

var rtypeMarker types.Type = types.NewNamed(types.NewTypeName(token.NoPos, nil, "reflect.rtype(gosym)", nil), types.NewStruct(nil, nil), nil)

func reflectKind(t types.Type) uint64 {
	switch u := t.Underlying().(type) {
	case *types.Basic:
		switch u.Kind() {
		case types.Bool:
			return 1
		case types.Int:
			return 2
		case types.Int8:
			return 3
		case types.Int16:
			return 4
		case types.Int32:
			return 5
		case types.Int64:
			return 6
		case types.Uint:
			return 7
		case types.Uint8:
			return 8
		case types.Uint16:
			return 9
		case types.Uint32:
			return 10
		case types.Uint64:
			return 11
		case types.Uintptr:
			return 12
		case types.Float32:
			return 13
		case types.Float64:
			return 14
		case types.Complex64:
			return 15
		case types.Complex128:
			return 16
		case types.String:
			return 24
		case types.UnsafePointer:
			return 26
		}
	case *types.Array:
		return 17
	case *types.Chan:
		return 18
	case *types.Signature:
		return 19
	case *types.Interface:
		return 20
	case *types.Map:
		return 21
	case *types.Pointer:
		return 22
	case *types.Slice:
		return 23
	case *types.Struct:
		return 25
	}
	return 0
}

func (ex *Exec) rtypeIface(t types.Type) Value {
	if t == nil {
		return Iface{}
	}
	return Iface{T: rtypeMarker, V: RType{T: t}}
}

func (ex *Exec) rvalueGet(st *State, v RValue) Value {
	if v.Addr != nil {
		return ex.load(st, *v.Addr, nil)
	}
	return v.V
}

func asRValue(v Value) RValue {
	if r, ok := v.(RValue); ok {
		return r
	}
	// the zero reflect.Value (a StructV of the real struct type)
	return RValue{}
}

func init() {
	intrinsics["reflect.TypeOf"] = func(ex *Exec, st *State, f *Frame, fn FuncV, args []Value, retTo ssa.Value, instr ssa.Instruction) bool {
		i, ok := args[0].(Iface)
		if !ok {
			return ret(f, retTo, Opaque{Why: "reflect.TypeOf(opaque)"})
		}
		return ret(f, retTo, ex.rtypeIface(i.T))
	}
	intrinsics["reflect.ValueOf"] = func(ex *Exec, st *State, f *Frame, fn FuncV, args []Value, retTo ssa.Value, instr ssa.Instruction) bool {
		i := args[0].(Iface)
		if i.T == nil {
			return ret(f, retTo, RValue{})
		}
		return ret(f, retTo, RValue{T: i.T, V: i.V})
	}
	intrinsics["reflect.New"] = func(ex *Exec, st *State, f *Frame, fn FuncV, args []Value, retTo ssa.Value, instr ssa.Instruction) bool {
		t := args[0].(Iface).V.(RType).T
		o := st.newObj(ObjCells, t, "reflect.New")
		o.Val = ex.zero(t)
		return ret(f, retTo, RValue{T: types.NewPointer(t), V: Ptr{Obj: o.id}})
	}
	rv := func(name string, h func(ex *Exec, st *State, v RValue, args []Value, instr ssa.Instruction) Value) {
		intrinsics["(reflect.Value)."+name] = func(ex *Exec, st *State, f *Frame, fn FuncV, args []Value, retTo ssa.Value, instr ssa.Instruction) bool {
			return ret(f, retTo, h(ex, st, asRValue(args[0]), args[1:], instr))
		}
	}
	rv("Type", func(ex *Exec, st *State, v RValue, args []Value, instr ssa.Instruction) Value { return ex.rtypeIface(v.T) })
	rv("Kind", func(ex *Exec, st *State, v RValue, args []Value, instr ssa.Instruction) Value {
		if v.T == nil {
			return ex.c64(0)
		}
		return ex.c64(reflectKind(v.T))
	})
	rv("IsValid", func(ex *Exec, st *State, v RValue, args []Value, instr ssa.Instruction) Value { return ex.tb.Bool(v.T != nil) })
	rv("Elem", func(ex *Exec, st *State, v RValue, args []Value, instr ssa.Instruction) Value {
		switch u := v.T.Underlying().(type) {
		case *types.Pointer:
			p := ex.rvalueGet(st, v).(Ptr)
			if p.Obj == 0 {
				return RValue{}
			}
			return RValue{T: u.Elem(), Addr: &p}
		case *types.Interface:
			i := ex.rvalueGet(st, v).(Iface)
			if i.T == nil {
				return RValue{}
			}
			return RValue{T: i.T, V: i.V}
		}
		panic(cutPath{"reflect.Value.Elem on " + v.T.String()})
	})
	rv("Float", func(ex *Exec, st *State, v RValue, args []Value, instr ssa.Instruction) Value {
		t := ex.rvalueGet(st, v).(*Term)
		if t.W() == 32 {
			return ex.fpToFp(t, 32, 64)
		}
		return t
	})
	rv("Uint", func(ex *Exec, st *State, v RValue, args []Value, instr ssa.Instruction) Value {
		return ex.tb.ZExt(ex.rvalueGet(st, v).(*Term), 64)
	})
	rv("Int", func(ex *Exec, st *State, v RValue, args []Value, instr ssa.Instruction) Value {
		return ex.tb.SExt(ex.rvalueGet(st, v).(*Term), 64)
	})
	rv("Interface", func(ex *Exec, st *State, v RValue, args []Value, instr ssa.Instruction) Value {
		val := ex.rvalueGet(st, v)
		if _, isI := v.T.Underlying().(*types.Interface); isI {
			return val
		}
		return Iface{T: v.T, V: val}
	})
	set := func(name string, conv func(ex *Exec, t types.Type, x *Term) *Term) {
		intrinsics["(reflect.Value)."+name] = func(ex *Exec, st *State, f *Frame, fn FuncV, args []Value, retTo ssa.Value, instr ssa.Instruction) bool {
			v := asRValue(args[0])
			if v.Addr == nil {
				ex.throwRuntime(st, "reflect", "reflect: "+name+" using unaddressable value", instr)
			}
			ex.store(st, *v.Addr, conv(ex, v.T, args[1].(*Term)), instr)
			return ret(f, retTo, nil)
		}
	}
	set("SetFloat", func(ex *Exec, t types.Type, x *Term) *Term {
		if scalarWidth(t) == 32 {
			return ex.fpToFp(x, 64, 32)
		}
		return x
	})
	set("SetUint", func(ex *Exec, t types.Type, x *Term) *Term { return ex.tb.Resize(x, scalarWidth(t), false) })
	set("SetInt", func(ex *Exec, t types.Type, x *Term) *Term { return ex.tb.Resize(x, scalarWidth(t), true) })
	intrinsics["(reflect.Value).Set"] = func(ex *Exec, st *State, f *Frame, fn FuncV, args []Value, retTo ssa.Value, instr ssa.Instruction) bool {
		v, x := asRValue(args[0]), asRValue(args[1])
		if v.Addr == nil {
			ex.throwRuntime(st, "reflect", "reflect: Set using unaddressable value", instr)
		}
		val := ex.rvalueGet(st, x)
		if _, isI := v.T.Underlying().(*types.Interface); isI {
			if _, srcI := x.T.Underlying().(*types.Interface); !srcI {
				val = Iface{T: x.T, V: val}
			}
		}
		ex.store(st, *v.Addr, val, instr)
		return ret(f, retTo, nil)
	}
	intrinsics["(reflect.Value).Call"] = func(ex *Exec, st *State, f *Frame, fn FuncV, args []Value, retTo ssa.Value, instr ssa.Instruction) bool {
		v := asRValue(args[0])
		callee, ok := ex.rvalueGet(st, v).(FuncV)
		if !ok || callee.Fn == nil {
			panic(cutPath{"reflect.Value.Call of a non-function"})
		}
		in := ex.variadicArgs(st, args[1])
		cargs := make([]Value, len(in))
		sig := callee.Fn.Signature
		for i := range in {
			a := asRValue(in[i])
			val := ex.rvalueGet(st, a)
			if _, isI := sig.Params().At(i).Type().Underlying().(*types.Interface); isI {
				if _, already := val.(Iface); !already {
					val = Iface{T: a.T, V: val}
				}
			}
			cargs[i] = val
		}
		f.pc++
		nf := ex.pushFrame(st, callee, cargs, retTo)
		nf.nativeRet = "reflect.Call"
		return true
	}
}

// rtypeMethod dispatches a method call on a reflect.Type value.
func (ex *Exec) rtypeMethod(st *State, t RType, name string, args []Value) Value {
	sig, _ := t.T.Underlying().(*types.Signature)
	switch name {
	case "Kind":
		return ex.c64(reflectKind(t.T))
	case "NumIn":
		return ex.c64(uint64(sig.Params().Len()))
	case "NumOut":
		return ex.c64(uint64(sig.Results().Len()))
	case "In":
		i := ex.concretize(st, args[0].(*Term), "reflect In index")
		return ex.rtypeIface(sig.Params().At(int(i)).Type())
	case "Out":
		i := ex.concretize(st, args[0].(*Term), "reflect Out index")
		return ex.rtypeIface(sig.Results().At(int(i)).Type())
	case "Elem":
		switch u := t.T.Underlying().(type) {
		case *types.Pointer:
			return ex.rtypeIface(u.Elem())
		case *types.Slice:
			return ex.rtypeIface(u.Elem())
		case *types.Array:
			return ex.rtypeIface(u.Elem())
		case *types.Map:
			return ex.rtypeIface(u.Elem())
		}
	case "Implements":
		u := args[0].(Iface).V.(RType).T
		it, ok := u.Underlying().(*types.Interface)
		if !ok {
			panic(cutPath{"reflect Implements of non-interface"})
		}
		return ex.tb.Bool(types.Implements(t.T, it))
	case "String", "Name":
		return Str{S: t.T.String()}
	case "IsVariadic":
		return ex.tb.Bool(sig.Variadic())
	}
	panic(cutPath{fmt.Sprintf("reflect.Type.%s on %s", name, t.T)})
}

// reflectCallReturn converts the results of a function invoked through reflect.Value.Call into []reflect.Value.
func (ex *Exec) reflectCallReturn(st *State, callee *ssa.Function, res Value) Value {
	rs := callee.Signature.Results()
	n := rs.Len()
	vals := make(ArrayV, n)
	switch n {
	case 0:
	case 1:
		vals[0] = RValue{T: rs.At(0).Type(), V: res}
	default:
		t := res.(TupleV)
		for i := 0; i < n; i++ {
			vals[i] = RValue{T: rs.At(i).Type(), V: t[i]}
		}
	}
	o := st.newObj(ObjCells, nil, "reflect.Call results")
	o.Val = vals
	return SliceV{Obj: o.id, Off: ex.c64(0), Len: ex.c64(uint64(n)), Cap: ex.c64(uint64(n))}
}

package main

import (
	"fmt"
	"go/types"

	"golang.org/x/tools/go/ssa"
)

// Value is one of:
//   *Term               scalar: bool, integers, floats (as IEEE bits), unsafe sizes
//   Ptr                 pointer (Obj == 0 means nil)
//   SliceV              slice
//   Str                 string
//   Iface               interface value
//   FuncV               function value / closure / bound builtin
//   MapV                map reference (Obj == 0 means nil map)
//   StructV, ArrayV     aggregates (immutable; copy on update)
//   TupleV              multiple results
//   Opaque              a value the executor cannot compute
type Value interface{}

type Ptr struct {
	Obj  int    // object id; 0 = nil
	Path string // encoded path of concrete indices: each element is 4 bytes big endian (so Ptr is comparable)
	Sym  *Term  // symbolic element index (BV64) relative to the aggregate at Path (SmtArr object or scalar array)
	// For pointers obtained from unsafe casts etc.
}

type SliceV struct {
	Obj  int
	Path string // path to the array aggregate within the object (for Cells objects)
	Off  *Term  // BV64 element offset within the array
	Len  *Term  // BV64
	Cap  *Term  // BV64
}

type Str struct {
	S   string  // concrete content when Sym == nil
	Sym []*Term // BV8 terms; concrete length, symbolic bytes
}

type Iface struct {
	T types.Type // dynamic type; nil = nil interface
	V Value
	// SymNil, when set, is the condition under which this interface value is nil (verifrt.MaybeNil): only comparisons with
	// nil look at it; every other use treats the value as non-nil.
	SymNil *Term
}

type FuncV struct {
	Fn       *ssa.Function
	Bindings []Value
	Builtin  *ssa.Builtin
	Native   string // name of an intrinsic bound as a value (e.g. method value of stub)
	Recv     Value  // bound receiver for Native
}

type MapV struct{ Obj int }
type ChanV struct{ Obj int }

type StructV []Value
type ArrayV []Value
type TupleV []Value

type Opaque struct{ Why string }

// IterV is a range iterator (object-backed so forks do not share position).
type IterV struct{ Obj int }

func pathAppend(p string, idx int) string {
	return p + string([]byte{byte(idx >> 24), byte(idx >> 16), byte(idx >> 8), byte(idx)})
}

func pathElems(p string) []int {
	n := len(p) / 4
	out := make([]int, n)
	for i := 0; i < n; i++ {
		out[i] = int(p[4*i])<<24 | int(p[4*i+1])<<16 | int(p[4*i+2])<<8 | int(p[4*i+3])
	}
	return out
}

func pathString(p string) string { return fmt.Sprint(pathElems(p)) }

// ---- objects

type ObjKind uint8

const (
	ObjCells ObjKind = iota // Val holds a Value tree
	ObjSmt                  // SMT array of scalars with symbolic length
	ObjMap
	ObjIter
	ObjChan
	ObjSparse // array of non-scalar elements with symbolic (or very large) length: default value + list of writes
)

// SpWrite is one element write of an ObjSparse (index relative to the object, not to a slice of it).
type SpWrite struct {
	Idx *Term
	V   Value
}

type MapEntry struct {
	K, V    Value
	Deleted bool
}

type Obj struct {
	id    int
	kind  ObjKind
	owner int // state id allowed to mutate in place
	typ   types.Type
	label string

	Val Value // ObjCells

	Arr  *Term // ObjSmt: array term
	ALen *Term // ObjSmt: number of elements (BV64)
	EW   int   // ObjSmt: element width in bits
	Init *Term // ObjSmt: the initial array (for "unchanged outside" assertions)
	Name string

	Entries []MapEntry // ObjMap (insertion ordered)

	IterKeys []Value // ObjIter: snapshot
	IterVals []Value
	IterPos  int

	ReadOnly bool // string data / constants

	SpWrites []SpWrite // ObjSparse: writes in program order (later ones win); replaced, never modified in place
	SpDef    Value     // ObjSparse: the value of every element not written

	ChanClosed bool    // ObjChan
	ChanQueue  []Value // ObjChan: buffered / pending values (sequential model)
}

func (o *Obj) clone(owner int) *Obj {
	c := *o
	c.owner = owner
	if o.Entries != nil {
		c.Entries = append([]MapEntry(nil), o.Entries...)
	}
	return &c
}

// ---- type helpers

func under(t types.Type) types.Type { return t.Underlying() }

func isInteger(t types.Type) bool {
	b, ok := under(t).(*types.Basic)
	return ok && b.Info()&types.IsInteger != 0
}
func isUnsigned(t types.Type) bool {
	b, ok := under(t).(*types.Basic)
	return ok && b.Info()&types.IsUnsigned != 0
}
func isFloat(t types.Type) bool {
	b, ok := under(t).(*types.Basic)
	return ok && b.Info()&types.IsFloat != 0
}
func isBoolean(t types.Type) bool {
	b, ok := under(t).(*types.Basic)
	return ok && b.Info()&types.IsBoolean != 0
}
func isString(t types.Type) bool {
	b, ok := under(t).(*types.Basic)
	return ok && b.Info()&types.IsString != 0
}

var stdSizes = types.StdSizes{WordSize: 8, MaxAlign: 8}

func sizeof(t types.Type) int64 { return stdSizes.Sizeof(t) }

// scalarWidth returns the bit width of a scalar basic type (0 if not scalar BV).
func scalarWidth(t types.Type) int {
	switch b := under(t).(type) {
	case *types.Basic:
		switch b.Kind() {
		case types.Int8, types.Uint8:
			return 8
		case types.Int16, types.Uint16:
			return 16
		case types.Int32, types.Uint32, types.Float32:
			return 32
		case types.Int64, types.Uint64, types.Int, types.Uint, types.Uintptr, types.Float64:
			return 64
		case types.UntypedInt, types.UntypedRune:
			return 64
		case types.UntypedFloat:
			return 64
		}
	}
	return 0
}

func isScalarBV(t types.Type) bool { return scalarWidth(t) != 0 }

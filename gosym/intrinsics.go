package main

import (
	"fmt"
	"go/types"
	"math"
	"strings"

	"golang.org/x/tools/go/ssa"
)

type intrinsicFn func(ex *Exec, st *State, f *Frame, fn FuncV, args []Value, retTo ssa.Value, instr ssa.Instruction) bool

const verifrtPath = "github.com/tetratelabs/wazero/internal/verifrt."

func ret(f *Frame, retTo ssa.Value, v Value) bool {
	if retTo != nil {
		f.env[retTo] = v
	}
	f.pc++
	return true
}

func (ex *Exec) strArg(v Value) string {
	s, ok := v.(Str)
	if !ok || s.Sym != nil {
		panic("verifrt: name/message arguments must be constant strings")
	}
	return s.S
}

func (ex *Exec) namedInput(name string, w int) *Term {
	if t, ok := ex.tb.vars[name]; ok {
		return t
	}
	var t *Term
	if w == 0 {
		t = ex.tb.Var(name, BoolSort)
	} else {
		t = ex.tb.Var(name, BV(w))
	}
	ex.inputs = append(ex.inputs, t)
	return t
}

var intrinsics map[string]intrinsicFn

func init() {
	intrinsics = map[string]intrinsicFn{}
	for n, w := range map[string]int{"U8": 8, "U16": 16, "U32": 32, "U64": 64, "I32": 32, "I64": 64, "Int": 64, "I8": 8, "I16": 16, "Bool": 0} {
		w := w
		intrinsics[verifrtPath+n] = func(ex *Exec, st *State, f *Frame, fn FuncV, args []Value, retTo ssa.Value, instr ssa.Instruction) bool {
			return ret(f, retTo, ex.namedInput(ex.strArg(args[0]), w))
		}
	}
	intrinsics[verifrtPath+"F32"] = func(ex *Exec, st *State, f *Frame, fn FuncV, args []Value, retTo ssa.Value, instr ssa.Instruction) bool {
		return ret(f, retTo, ex.namedInput(ex.strArg(args[0]), 32))
	}
	intrinsics[verifrtPath+"F64"] = func(ex *Exec, st *State, f *Frame, fn FuncV, args []Value, retTo ssa.Value, instr ssa.Instruction) bool {
		return ret(f, retTo, ex.namedInput(ex.strArg(args[0]), 64))
	}
	intrinsics[verifrtPath+"Bytes"] = func(ex *Exec, st *State, f *Frame, fn FuncV, args []Value, retTo ssa.Value, instr ssa.Instruction) bool {
		name := ex.strArg(args[0])
		n := args[1].(*Term)
		arr := ex.tb.Var(name, Arr(8))
		if _, ok := ex.inputArrs[name]; !ok {
			ex.inputArrs[name] = arr
			ex.inputArrOrder = append(ex.inputArrOrder, name)
		}
		o := st.newObj(ObjSmt, types.Typ[types.Uint8], "input "+name)
		o.Arr, o.Init, o.ALen, o.EW, o.Name = arr, arr, n, 8, name
		if st.inputLens == nil {
			st.inputLens = map[string]*Term{}
		}
		st.inputLens[name] = n
		return ret(f, retTo, SliceV{Obj: o.id, Off: ex.c64(0), Len: n, Cap: n})
	}
	// Words(name, n) []uint64: symbolic contents, concrete or symbolic length
	intrinsics[verifrtPath+"Words"] = func(ex *Exec, st *State, f *Frame, fn FuncV, args []Value, retTo ssa.Value, instr ssa.Instruction) bool {
		name := ex.strArg(args[0])
		n := args[1].(*Term)
		cnt := ex.concretize(st, n, "Words length")
		o := st.newObj(ObjCells, types.NewArray(types.Typ[types.Uint64], int64(cnt)), "input "+name)
		arr := make(ArrayV, cnt)
		for i := range arr {
			arr[i] = ex.namedInput(fmt.Sprintf("%s[%d]", name, i), 64)
		}
		o.Val = arr
		return ret(f, retTo, SliceV{Obj: o.id, Off: ex.c64(0), Len: ex.c64(cnt), Cap: ex.c64(cnt)})
	}
	// String(name, n): string of concrete length n (harness picks n via Choose) with symbolic bytes
	intrinsics[verifrtPath+"String"] = func(ex *Exec, st *State, f *Frame, fn FuncV, args []Value, retTo ssa.Value, instr ssa.Instruction) bool {
		name := ex.strArg(args[0])
		n := ex.concretize(st, args[1].(*Term), "String length")
		b := make([]*Term, n)
		for i := range b {
			b[i] = ex.namedInput(fmt.Sprintf("%s[%d]", name, i), 8)
		}
		if n == 0 {
			return ret(f, retTo, Str{})
		}
		return ret(f, retTo, Str{Sym: b})
	}
	intrinsics[verifrtPath+"Choose"] = func(ex *Exec, st *State, f *Frame, fn FuncV, args []Value, retTo ssa.Value, instr ssa.Instruction) bool {
		name := ex.strArg(args[0])
		n := args[1].(*Term)
		if !n.IsConst() {
			panic("verifrt.Choose: n must be constant")
		}
		return ret(f, retTo, ex.c64(ex.chooseValue(st, name, n.c)))
	}
	intrinsics[verifrtPath+"SetMapOrderNondet"] = func(ex *Exec, st *State, f *Frame, fn FuncV, args []Value, retTo ssa.Value, instr ssa.Instruction) bool {
		st.mapOrderNondet = args[0].(*Term).IsTrue()
		return ret(f, retTo, nil)
	}
	intrinsics[verifrtPath+"Assume"] = func(ex *Exec, st *State, f *Frame, fn FuncV, args []Value, retTo ssa.Value, instr ssa.Instruction) bool {
		c := args[0].(*Term)
		if c.IsFalse() || !ex.feasible(st, c) {
			panic(endPath{"assume failed"})
		}
		st.assume(c)
		ex.assumes[ex.sitePos(st, instr)] = true
		return ret(f, retTo, nil)
	}
	intrinsics[verifrtPath+"Assert"] = func(ex *Exec, st *State, f *Frame, fn FuncV, args []Value, retTo ssa.Value, instr ssa.Instruction) bool {
		c := args[0].(*Term)
		msg := ex.strArg(args[1])
		site := ex.sitePos(st, instr)
		ex.getObl("assert", site, msg)
		if !c.IsTrue() {
			nc := ex.tb.Not(c)
			if ex.feasible(st, nc) {
				ex.recordViolation(st, "assert", site, msg, nc)
				if c.IsFalse() || !ex.feasible(st, c) {
					panic(endPath{"assertion always fails here"})
				}
				st.assume(c)
			}
		}
		return ret(f, retTo, nil)
	}
	intrinsics[verifrtPath+"Cover"] = func(ex *Exec, st *State, f *Frame, fn FuncV, args []Value, retTo ssa.Value, instr ssa.Instruction) bool {
		label := ex.strArg(args[0])
		if !ex.covers[label] {
			// path condition is feasible by construction (every fork was checked) unless solver said unknown
			want := ex.modelTerms(st)
			if ex.sol.Check(st.pc, ex.cfg.OblTimeoutMs, true, want...) == RSat {
				ex.covers[label] = true
				ex.coverModel[label] = ex.extractModel(st, want)
				ex.sol.Pop()
			}
		}
		return ret(f, retTo, nil)
	}
	intrinsics[verifrtPath+"Expected"] = func(ex *Exec, st *State, f *Frame, fn FuncV, args []Value, retTo ssa.Value, instr ssa.Instruction) bool {
		name := ex.strArg(args[0])
		if st.expects == nil {
			st.expects = map[string]*Term{}
		}
		st.expects[name] = args[1].(*Term)
		return ret(f, retTo, nil)
	}
	intrinsics[verifrtPath+"AllocBytes"] = func(ex *Exec, st *State, f *Frame, fn FuncV, args []Value, retTo ssa.Value, instr ssa.Instruction) bool {
		return ret(f, retTo, st.alloc)
	}
	intrinsics[verifrtPath+"SetAllocBudget"] = func(ex *Exec, st *State, f *Frame, fn FuncV, args []Value, retTo ssa.Value, instr ssa.Instruction) bool {
		st.budget = ex.tb.Add(st.alloc, args[0].(*Term))
		return ret(f, retTo, nil)
	}
	// Initial(b []byte, i uint64) byte: the content of a Bytes input before the harness wrote to it
	intrinsics[verifrtPath+"Initial"] = func(ex *Exec, st *State, f *Frame, fn FuncV, args []Value, retTo ssa.Value, instr ssa.Instruction) bool {
		s := args[0].(SliceV)
		o := st.obj(s.Obj)
		if o.kind != ObjSmt || o.Init == nil {
			panic("verifrt.Initial: not a Bytes input")
		}
		return ret(f, retTo, ex.tb.Select(o.Init, ex.tb.Add(s.Off, args[1].(*Term))))
	}
	intrinsics[verifrtPath+"Or"] = func(ex *Exec, st *State, f *Frame, fn FuncV, args []Value, retTo ssa.Value, instr ssa.Instruction) bool {
		return ret(f, retTo, ex.tb.Or(args[0].(*Term), args[1].(*Term)))
	}
	intrinsics[verifrtPath+"And"] = func(ex *Exec, st *State, f *Frame, fn FuncV, args []Value, retTo ssa.Value, instr ssa.Instruction) bool {
		return ret(f, retTo, ex.tb.And(args[0].(*Term), args[1].(*Term)))
	}
	intrinsics[verifrtPath+"SetStepBudget"] = func(ex *Exec, st *State, f *Frame, fn FuncV, args []Value, retTo ssa.Value, instr ssa.Instruction) bool {
		n := args[0].(*Term)
		if n.c == 0 {
			st.stepLimit = 0
		} else {
			st.stepLimit = st.steps + int(n.c)
			st.stepMsg = ex.strArg(args[1])
		}
		return ret(f, retTo, nil)
	}
	intrinsics[verifrtPath+"Thorough"] = func(ex *Exec, st *State, f *Frame, fn FuncV, args []Value, retTo ssa.Value, instr ssa.Instruction) bool {
		return ret(f, retTo, ex.tb.Bool(ex.cfg.Thorough))
	}
	intrinsics[verifrtPath+"Symbolic"] = func(ex *Exec, st *State, f *Frame, fn FuncV, args []Value, retTo ssa.Value, instr ssa.Instruction) bool {
		return ret(f, retTo, ex.tb.True())
	}
	// hash/crc32: use the portable table-driven implementations (the assembly routines have no Go body)
	for _, n := range []string{"hash/crc32.archAvailableCastagnoli", "hash/crc32.archAvailableIEEE"} {
		intrinsics[n] = func(ex *Exec, st *State, f *Frame, fn FuncV, args []Value, retTo ssa.Value, instr ssa.Instruction) bool {
			return ret(f, retTo, ex.tb.False())
		}
	}
	// MaybeNil(x any, isNil bool) any: x, or nil when isNil - without forking: the nil-ness stays symbolic in comparisons
	intrinsics[verifrtPath+"MaybeNil"] = func(ex *Exec, st *State, f *Frame, fn FuncV, args []Value, retTo ssa.Value, instr ssa.Instruction) bool {
		i, ok := args[0].(Iface)
		c, ok2 := args[1].(*Term)
		if !ok || !ok2 || i.T == nil {
			panic(cutPath{"verifrt.MaybeNil: needs a non-nil interface value and a boolean"})
		}
		i.SymNil = c
		return ret(f, retTo, i)
	}
	intrinsics[verifrtPath+"Note"] = func(ex *Exec, st *State, f *Frame, fn FuncV, args []Value, retTo ssa.Value, instr ssa.Instruction) bool {
		return ret(f, retTo, nil)
	}
	intrinsics[verifrtPath+"Stub"] = func(ex *Exec, st *State, f *Frame, fn FuncV, args []Value, retTo ssa.Value, instr ssa.Instruction) bool {
		ex.stubs[ex.strArg(args[0])] = true
		return ret(f, retTo, nil)
	}

	// ---- sync
	lock := func(ex *Exec, st *State, f *Frame, fn FuncV, args []Value, retTo ssa.Value, instr ssa.Instruction) bool {
		p := args[0].(Ptr)
		ex.checkNil(st, p, instr)
		sp := Ptr{Obj: p.Obj, Path: pathAppend(p.Path, 0)}
		cur := ex.load(st, sp, instr).(*Term)
		if !cur.IsConst() {
			panic(cutPath{"symbolic mutex state"})
		}
		if cur.c != 0 {
			ex.recordViolation(st, "deadlock", ex.sitePos(st, instr), "Lock of a mutex already held on this (sequential) path", nil)
			panic(endPath{"deadlock"})
		}
		ex.store(st, sp, ex.tb.Const(1, cur.W()), instr)
		return ret(f, retTo, nil)
	}
	unlock := func(ex *Exec, st *State, f *Frame, fn FuncV, args []Value, retTo ssa.Value, instr ssa.Instruction) bool {
		p := args[0].(Ptr)
		ex.checkNil(st, p, instr)
		sp := Ptr{Obj: p.Obj, Path: pathAppend(p.Path, 0)}
		cur := ex.load(st, sp, instr).(*Term)
		if cur.IsConst() && cur.c == 0 {
			ex.recordViolation(st, "panic", ex.sitePos(st, instr), "sync: unlock of unlocked mutex", nil)
			panic(endPath{"unlock of unlocked mutex"})
		}
		ex.store(st, sp, ex.tb.Const(0, cur.W()), instr)
		return ret(f, retTo, nil)
	}
	intrinsics["(*sync.Mutex).Lock"] = lock
	intrinsics["(*sync.Mutex).Unlock"] = unlock
	// RWMutex{w Mutex; writerSem, readerSem uint32; readerCount, readerWait atomic.Int32}: field 1 (writerSem) as write flag, field 2 as reader count
	intrinsics["(*sync.RWMutex).Lock"] = func(ex *Exec, st *State, f *Frame, fn FuncV, args []Value, retTo ssa.Value, instr ssa.Instruction) bool {
		p := args[0].(Ptr)
		ex.checkNil(st, p, instr)
		wp := Ptr{Obj: p.Obj, Path: pathAppend(p.Path, 1)}
		rp := Ptr{Obj: p.Obj, Path: pathAppend(p.Path, 2)}
		w, r := ex.load(st, wp, instr).(*Term), ex.load(st, rp, instr).(*Term)
		if !(w.IsConst() && r.IsConst()) {
			panic(cutPath{"symbolic rwmutex state"})
		}
		if w.c != 0 || r.c != 0 {
			ex.recordViolation(st, "deadlock", ex.sitePos(st, instr), "Lock of an RWMutex already held on this (sequential) path", nil)
			panic(endPath{"deadlock"})
		}
		ex.store(st, wp, ex.tb.Const(1, 32), instr)
		return ret(f, retTo, nil)
	}
	intrinsics["(*sync.RWMutex).Unlock"] = func(ex *Exec, st *State, f *Frame, fn FuncV, args []Value, retTo ssa.Value, instr ssa.Instruction) bool {
		p := args[0].(Ptr)
		wp := Ptr{Obj: p.Obj, Path: pathAppend(p.Path, 1)}
		ex.store(st, wp, ex.tb.Const(0, 32), instr)
		return ret(f, retTo, nil)
	}
	intrinsics["(*sync.RWMutex).RLock"] = func(ex *Exec, st *State, f *Frame, fn FuncV, args []Value, retTo ssa.Value, instr ssa.Instruction) bool {
		p := args[0].(Ptr)
		ex.checkNil(st, p, instr)
		wp := Ptr{Obj: p.Obj, Path: pathAppend(p.Path, 1)}
		rp := Ptr{Obj: p.Obj, Path: pathAppend(p.Path, 2)}
		w, r := ex.load(st, wp, instr).(*Term), ex.load(st, rp, instr).(*Term)
		if !(w.IsConst() && r.IsConst()) {
			panic(cutPath{"symbolic rwmutex state"})
		}
		if w.c != 0 {
			ex.recordViolation(st, "deadlock", ex.sitePos(st, instr), "RLock of an RWMutex write-locked on this (sequential) path", nil)
			panic(endPath{"deadlock"})
		}
		ex.store(st, rp, ex.tb.Const(r.c+1, 32), instr)
		return ret(f, retTo, nil)
	}
	intrinsics["(*sync.RWMutex).RUnlock"] = func(ex *Exec, st *State, f *Frame, fn FuncV, args []Value, retTo ssa.Value, instr ssa.Instruction) bool {
		p := args[0].(Ptr)
		rp := Ptr{Obj: p.Obj, Path: pathAppend(p.Path, 2)}
		r := ex.load(st, rp, instr).(*Term)
		ex.store(st, rp, ex.tb.Sub(r, ex.tb.Const(1, 32)), instr)
		return ret(f, retTo, nil)
	}

	// ---- sync/atomic.Value: struct{ v any }; the field holds the stored interface value directly
	atomicValueField := func(ex *Exec, st *State, recv Value) Ptr {
		p := recv.(Ptr)
		return Ptr{Obj: p.Obj, Path: pathAppend(p.Path, 0)}
	}
	intrinsics["(*sync/atomic.Value).Load"] = func(ex *Exec, st *State, f *Frame, fn FuncV, args []Value, retTo ssa.Value, instr ssa.Instruction) bool {
		ex.checkNil(st, args[0].(Ptr), instr)
		return ret(f, retTo, ex.load(st, atomicValueField(ex, st, args[0]), instr))
	}
	intrinsics["(*sync/atomic.Value).Store"] = func(ex *Exec, st *State, f *Frame, fn FuncV, args []Value, retTo ssa.Value, instr ssa.Instruction) bool {
		ex.checkNil(st, args[0].(Ptr), instr)
		if v, ok := args[1].(Iface); ok && v.T == nil {
			ex.throwRuntime(st, "atomic", "sync/atomic: store of nil value into Value", instr)
		}
		ex.store(st, atomicValueField(ex, st, args[0]), args[1], instr)
		return ret(f, retTo, nil)
	}
	intrinsics["(*sync/atomic.Value).Swap"] = func(ex *Exec, st *State, f *Frame, fn FuncV, args []Value, retTo ssa.Value, instr ssa.Instruction) bool {
		p := atomicValueField(ex, st, args[0])
		old := ex.load(st, p, instr)
		ex.store(st, p, args[1], instr)
		return ret(f, retTo, old)
	}
	// ---- sync/atomic
	for _, ty := range []string{"Int32", "Int64", "Uint32", "Uint64", "Uintptr", "Pointer"} {
		intrinsics["sync/atomic.Load"+ty] = func(ex *Exec, st *State, f *Frame, fn FuncV, args []Value, retTo ssa.Value, instr ssa.Instruction) bool {
			return ret(f, retTo, ex.load(st, args[0].(Ptr), instr))
		}
		intrinsics["sync/atomic.Store"+ty] = func(ex *Exec, st *State, f *Frame, fn FuncV, args []Value, retTo ssa.Value, instr ssa.Instruction) bool {
			ex.store(st, args[0].(Ptr), args[1], instr)
			return ret(f, retTo, nil)
		}
		intrinsics["sync/atomic.Swap"+ty] = func(ex *Exec, st *State, f *Frame, fn FuncV, args []Value, retTo ssa.Value, instr ssa.Instruction) bool {
			old := ex.load(st, args[0].(Ptr), instr)
			ex.store(st, args[0].(Ptr), args[1], instr)
			return ret(f, retTo, old)
		}
		intrinsics["sync/atomic.CompareAndSwap"+ty] = func(ex *Exec, st *State, f *Frame, fn FuncV, args []Value, retTo ssa.Value, instr ssa.Instruction) bool {
			p := args[0].(Ptr)
			cur := ex.load(st, p, instr)
			eq := ex.valEq(st, cur, args[1])
			if ex.decide(st, eq) {
				ex.store(st, p, args[2], instr)
				return ret(f, retTo, ex.tb.True())
			}
			return ret(f, retTo, ex.tb.False())
		}
		if ty != "Pointer" {
			intrinsics["sync/atomic.Add"+ty] = func(ex *Exec, st *State, f *Frame, fn FuncV, args []Value, retTo ssa.Value, instr ssa.Instruction) bool {
				p := args[0].(Ptr)
				nv := ex.tb.Add(ex.load(st, p, instr).(*Term), args[1].(*Term))
				ex.store(st, p, nv, instr)
				return ret(f, retTo, nv)
			}
			intrinsics["sync/atomic.And"+ty] = func(ex *Exec, st *State, f *Frame, fn FuncV, args []Value, retTo ssa.Value, instr ssa.Instruction) bool {
				p := args[0].(Ptr)
				old := ex.load(st, p, instr).(*Term)
				ex.store(st, p, ex.tb.And(old, args[1].(*Term)), instr)
				return ret(f, retTo, old)
			}
			intrinsics["sync/atomic.Or"+ty] = func(ex *Exec, st *State, f *Frame, fn FuncV, args []Value, retTo ssa.Value, instr ssa.Instruction) bool {
				p := args[0].(Ptr)
				old := ex.load(st, p, instr).(*Term)
				ex.store(st, p, ex.tb.Or(old, args[1].(*Term)), instr)
				return ret(f, retTo, old)
			}
		}
	}

	// ---- math/bits
	for _, w := range []int{8, 16, 32, 64} {
		w := w
		suffix := fmt.Sprint(w)
		intrinsics["math/bits.LeadingZeros"+suffix] = func(ex *Exec, st *State, f *Frame, fn FuncV, args []Value, retTo ssa.Value, instr ssa.Instruction) bool {
			return ret(f, retTo, ex.clz(args[0].(*Term)))
		}
		intrinsics["math/bits.TrailingZeros"+suffix] = func(ex *Exec, st *State, f *Frame, fn FuncV, args []Value, retTo ssa.Value, instr ssa.Instruction) bool {
			return ret(f, retTo, ex.ctz(args[0].(*Term)))
		}
		intrinsics["math/bits.OnesCount"+suffix] = func(ex *Exec, st *State, f *Frame, fn FuncV, args []Value, retTo ssa.Value, instr ssa.Instruction) bool {
			return ret(f, retTo, ex.popcnt(args[0].(*Term)))
		}
		intrinsics["math/bits.Len"+suffix] = func(ex *Exec, st *State, f *Frame, fn FuncV, args []Value, retTo ssa.Value, instr ssa.Instruction) bool {
			x := args[0].(*Term)
			return ret(f, retTo, ex.tb.Sub(ex.c64(uint64(x.W())), ex.clz(x)))
		}
	}
	intrinsics["math/bits.LeadingZeros"] = intrinsics["math/bits.LeadingZeros64"]
	intrinsics["math/bits.TrailingZeros"] = intrinsics["math/bits.TrailingZeros64"]
	intrinsics["math/bits.OnesCount"] = intrinsics["math/bits.OnesCount64"]
	intrinsics["math/bits.Len"] = intrinsics["math/bits.Len64"]

	// ---- math
	round := func(mode string) intrinsicFn {
		return func(ex *Exec, st *State, f *Frame, fn FuncV, args []Value, retTo ssa.Value, instr ssa.Instruction) bool {
			x := args[0].(*Term)
			return ret(f, retTo, ex.fpRound(x, mode))
		}
	}
	intrinsics["math.Floor"] = round("RTN")
	intrinsics["math.Ceil"] = round("RTP")
	intrinsics["math.Trunc"] = round("RTZ")
	intrinsics["math.RoundToEven"] = round("RNE")
	intrinsics["math.Sqrt"] = func(ex *Exec, st *State, f *Frame, fn FuncV, args []Value, retTo ssa.Value, instr ssa.Instruction) bool {
		x := args[0].(*Term)
		return ret(f, retTo, ex.fpResult("(fp.sqrt RNE "+ex.fpOf(x)+")", x.W(), x))
	}

	// transcendental functions: evaluated natively on constants (compiler-internal table sizing etc.), not modelled symbolically
	for name, fn := range map[string]func(float64) float64{"math.Log2": math.Log2, "math.Log": math.Log, "math.Log10": math.Log10, "math.Exp": math.Exp} {
		fn := fn
		name := name
		intrinsics[name] = func(ex *Exec, st *State, f *Frame, fv FuncV, args []Value, retTo ssa.Value, instr ssa.Instruction) bool {
			x := args[0].(*Term)
			if !x.IsConst() {
				panic(cutPath{name + " of a symbolic value"})
			}
			return ret(f, retTo, ex.tb.Const(math.Float64bits(fn(math.Float64frombits(x.c))), 64))
		}
	}

	// ---- runtime no-ops
	for _, n := range []string{"runtime.GC", "runtime.KeepAlive", "runtime.SetFinalizer", "runtime.Gosched", "(*sync.WaitGroup).Add", "(*sync.WaitGroup).Done"} {
		intrinsics[n] = func(ex *Exec, st *State, f *Frame, fn FuncV, args []Value, retTo ssa.Value, instr ssa.Instruction) bool {
			return ret(f, retTo, nil)
		}
	}

	// ---- platform: CPU feature detection reports every feature
	intrinsics["github.com/tetratelabs/wazero/internal/platform.cpuid"] = func(ex *Exec, st *State, f *Frame, fn FuncV, args []Value, retTo ssa.Value, instr ssa.Instruction) bool {
		all := ex.tb.Const(0xffffffff, 32)
		return ret(f, retTo, TupleV{all, all, all, all})
	}
	intrinsics["internal/reflectlite.TypeOf"] = func(ex *Exec, st *State, f *Frame, fn FuncV, args []Value, retTo ssa.Value, instr ssa.Instruction) bool {
		return ret(f, retTo, Opaque{Why: "reflectlite.TypeOf"})
	}

	intrinsics["internal/bytealg.MakeNoZero"] = func(ex *Exec, st *State, f *Frame, fn FuncV, args []Value, retTo ssa.Value, instr ssa.Instruction) bool {
		n := args[0].(*Term)
		return ret(f, retTo, ex.makeSlice(st, types.Typ[types.Uint8], n, n, instr))
	}
	intrinsics["runtime/debug.Stack"] = func(ex *Exec, st *State, f *Frame, fn FuncV, args []Value, retTo ssa.Value, instr ssa.Instruction) bool {
		// the text of a Go stack trace is not modelled
		return ret(f, retTo, SliceV{Off: ex.c64(0), Len: ex.c64(0), Cap: ex.c64(0)})
	}
	intrinsics["runtime/debug.PrintStack"] = func(ex *Exec, st *State, f *Frame, fn FuncV, args []Value, retTo ssa.Value, instr ssa.Instruction) bool {
		return ret(f, retTo, nil)
	}
	intrinsics["internal/abi.NoEscape"] = func(ex *Exec, st *State, f *Frame, fn FuncV, args []Value, retTo ssa.Value, instr ssa.Instruction) bool {
		return ret(f, retTo, args[0])
	}
	intrinsics["(*strings.Builder).copyCheck"] = func(ex *Exec, st *State, f *Frame, fn FuncV, args []Value, retTo ssa.Value, instr ssa.Instruction) bool {
		return ret(f, retTo, nil)
	}

	// ---- fmt / errors
	intrinsics["fmt.Errorf"] = intrErrorf
	intrinsics["fmt.Sprintf"] = intrSprintf
	intrinsics["fmt.Sprint"] = intrSprint
	intrinsics["fmt.Sprintln"] = intrSprint
	for _, n := range []string{"fmt.Printf", "fmt.Println", "fmt.Print", "fmt.Fprintf", "fmt.Fprintln", "fmt.Fprint"} {
		intrinsics[n] = func(ex *Exec, st *State, f *Frame, fn FuncV, args []Value, retTo ssa.Value, instr ssa.Instruction) bool {
			// (n int, err error)
			return ret(f, retTo, TupleV{ex.c64(0), Iface{}})
		}
	}
	intrinsics["errors.Is"] = intrErrorsIs
	intrinsics["errors.As"] = intrErrorsAs
}

// chooseValue forks the path over 0..n-1 for the named choice (one path per value, without consulting the solver) and
// returns the value of the current path. Re-execution of the calling instruction finds the value already fixed.
func (ex *Exec) chooseValue(st *State, name string, n uint64) uint64 {
	// each dynamic call gets its own variable: name#k where k counts calls with this name on the path
	k := 0
	for _, c := range st.choices {
		if strings.HasPrefix(c, name+"#") {
			k++
		}
	}
	vn := name
	if k > 0 {
		vn = fmt.Sprintf("%s#%d", name, k)
	}
	v := ex.namedInput(vn, 64)
	if fv, ok := ex.cfg.Fix[vn]; ok {
		if _, done := st.concr[v.id]; !done {
			if fv >= n {
				panic(endPath{"fixed Choose value out of range"})
			}
			st.assume(ex.tb.Eq(v, ex.c64(fv)))
			st.concr[v.id] = fv
		}
	}
	if _, done := st.concr[v.id]; !done {
		// a fresh choice variable is constrained by nothing but its range: every value is feasible, so the
		// alternatives are forked without consulting the solver (value 0 continues here)
		for alt := n - 1; alt >= 1 && alt < n; alt-- {
			child := st.clone()
			child.assume(ex.tb.Eq(v, ex.c64(alt)))
			child.concr[v.id] = alt
			ex.push(child)
			ex.forks++
		}
		if n == 0 {
			panic(endPath{"Choose from an empty range"})
		}
		st.assume(ex.tb.Eq(v, ex.c64(0)))
		st.concr[v.id] = 0
	}
	c := ex.concretize(st, v, "Choose "+vn)
	st.choices = append(st.choices, fmt.Sprintf("%s#=%d", name, c))
	return c
}

func (ex *Exec) intrinsic(name string, fn *ssa.Function) intrinsicFn {
	if h, ok := intrinsics[name]; ok {
		return h
	}
	if strings.HasPrefix(name, verifrtPath+"MaybeNil[") { // generic instantiation
		return intrinsics[verifrtPath+"MaybeNil"]
	}
	// package initialisers called from other initialisers: handled by the init phase
	if fn.Synthetic == "package initializer" {
		return func(ex *Exec, st *State, f *Frame, fn FuncV, args []Value, retTo ssa.Value, instr ssa.Instruction) bool {
			return ret(f, retTo, nil)
		}
	}
	return nil
}

func (ex *Exec) clz(x *Term) *Term {
	tb := ex.tb
	w := x.W()
	res := ex.c64(uint64(w))
	for i := 0; i < w; i++ {
		// bit i set and all higher clear -> w-1-i; build from low to high so higher bits take priority
		res = tb.Ite(tb.Eq(tb.Extract(x, i, i), tb.Const(1, 1)), ex.c64(uint64(w-1-i)), res)
	}
	return res
}

func (ex *Exec) ctz(x *Term) *Term {
	tb := ex.tb
	w := x.W()
	res := ex.c64(uint64(w))
	for i := w - 1; i >= 0; i-- {
		res = tb.Ite(tb.Eq(tb.Extract(x, i, i), tb.Const(1, 1)), ex.c64(uint64(i)), res)
	}
	return res
}

func (ex *Exec) popcnt(x *Term) *Term {
	tb := ex.tb
	res := ex.c64(0)
	for i := 0; i < x.W(); i++ {
		res = tb.Add(res, tb.ZExt(tb.Extract(x, i, i), 64))
	}
	return res
}

func (ex *Exec) fpRound(x *Term, mode string) *Term {
	return ex.fpResultKeepNaN("(fp.roundToIntegral "+mode+" "+ex.fpOf(x)+")", x)
}

// fpResultKeepNaN: unary operation whose NaN result is the (quieted) input NaN, as on amd64 ROUNDSD / Go's software fallbacks.
func (ex *Exec) fpResultKeepNaN(expr string, x *Term) *Term {
	w := x.W()
	r := ex.fpResult(expr, w, x)
	isNaN := ex.tb.Raw("(fp.isNaN "+ex.fpOf(x)+")", BoolSort, x)
	quiet := uint64(1) << 22
	if w == 64 {
		quiet = uint64(1) << 51
	}
	return ex.tb.Ite(isNaN, ex.tb.Or(x, ex.tb.Const(quiet, w)), r)
}

// ---- errors & fmt models

func (ex *Exec) findType(pkgPath, name string) types.Type {
	for _, p := range ex.prog.AllPackages() {
		if p.Pkg.Path() == pkgPath {
			if o := p.Pkg.Scope().Lookup(name); o != nil {
				return o.Type()
			}
		}
	}
	return nil
}

// formatBestEffort renders a format string with the arguments that are concrete; others as <sym>.
func (ex *Exec) formatBestEffort(st *State, format Str, args []Value) Str {
	if format.Sym != nil {
		return Str{S: "<sym format>"}
	}
	var sb strings.Builder
	ai := 0
	s := format.S
	for i := 0; i < len(s); i++ {
		if s[i] != '%' || i+1 >= len(s) {
			sb.WriteByte(s[i])
			continue
		}
		j := i + 1
		for j < len(s) && strings.IndexByte("+-# 0123456789.", s[j]) >= 0 {
			j++
		}
		if j >= len(s) {
			break
		}
		if s[j] == '%' {
			sb.WriteByte('%')
		} else if ai < len(args) {
			sb.WriteString(ex.describe(st, args[ai]))
			ai++
		}
		i = j
	}
	return Str{S: sb.String()}
}

func (ex *Exec) variadicArgs(st *State, v Value) []Value {
	s, ok := v.(SliceV)
	if !ok || s.Obj == 0 {
		return nil
	}
	n := ex.concretize(st, s.Len, "variadic length")
	out := make([]Value, n)
	for i := uint64(0); i < n; i++ {
		out[i] = ex.load(st, ex.elemPtr(st, s, ex.c64(i)), nil)
	}
	return out
}

func intrErrorf(ex *Exec, st *State, f *Frame, fn FuncV, args []Value, retTo ssa.Value, instr ssa.Instruction) bool {
	format := args[0].(Str)
	va := ex.variadicArgs(st, args[1])
	msg := ex.formatBestEffort(st, format, va)
	// find %w operand
	var wrapped Value
	if format.Sym == nil {
		ai := 0
		s := format.S
		for i := 0; i < len(s); i++ {
			if s[i] != '%' || i+1 >= len(s) {
				continue
			}
			j := i + 1
			for j < len(s) && strings.IndexByte("+-# 0123456789.", s[j]) >= 0 {
				j++
			}
			if j >= len(s) {
				break
			}
			if s[j] != '%' {
				if s[j] == 'w' && ai < len(va) && wrapped == nil {
					wrapped = va[ai]
				}
				ai++
			}
			i = j
		}
	}
	if wrapped != nil {
		wt := ex.findType("fmt", "wrapError")
		o := st.newObj(ObjCells, wt, "fmt.wrapError")
		o.Val = StructV{msg, wrapped}
		return ret(f, retTo, Iface{T: types.NewPointer(wt), V: Ptr{Obj: o.id}})
	}
	et := ex.findType("errors", "errorString")
	o := st.newObj(ObjCells, et, "errors.errorString")
	o.Val = StructV{msg}
	return ret(f, retTo, Iface{T: types.NewPointer(et), V: Ptr{Obj: o.id}})
}

func intrSprintf(ex *Exec, st *State, f *Frame, fn FuncV, args []Value, retTo ssa.Value, instr ssa.Instruction) bool {
	return ret(f, retTo, ex.formatBestEffort(st, args[0].(Str), ex.variadicArgs(st, args[1])))
}

func intrSprint(ex *Exec, st *State, f *Frame, fn FuncV, args []Value, retTo ssa.Value, instr ssa.Instruction) bool {
	var sb strings.Builder
	for _, a := range ex.variadicArgs(st, args[0]) {
		sb.WriteString(ex.describe(st, a))
	}
	return ret(f, retTo, Str{S: sb.String()})
}

// unwrapOnce handles the wrapper types the executor itself creates plus nil.
func (ex *Exec) unwrapOnce(st *State, e Iface) (Iface, bool) {
	if e.T == nil {
		return Iface{}, false
	}
	if p, ok := e.T.(*types.Pointer); ok {
		if n, ok := p.Elem().(*types.Named); ok && n.Obj().Pkg() != nil && n.Obj().Pkg().Path() == "fmt" && n.Obj().Name() == "wrapError" {
			ptr := e.V.(Ptr)
			inner := navGet(st.obj(ptr.Obj).Val, pathElems(ptr.Path)).(StructV)[1]
			return inner.(Iface), true
		}
	}
	// the standard library's wrappers *fs.PathError, *os.LinkError, *os.SyscallError: Unwrap returns the field Err
	if p, ok := e.T.(*types.Pointer); ok {
		if n, ok := p.Elem().(*types.Named); ok && n.Obj().Pkg() != nil && (n.Obj().Pkg().Path() == "io/fs" || n.Obj().Pkg().Path() == "os") {
			if stt, ok := n.Underlying().(*types.Struct); ok {
				for i := 0; i < stt.NumFields(); i++ {
					if stt.Field(i).Name() == "Err" {
						if ptr, ok := e.V.(Ptr); ok && ptr.Obj != 0 {
							if sv, ok := navGet(st.obj(ptr.Obj).Val, pathElems(ptr.Path)).(StructV); ok {
								if inner, ok := sv[i].(Iface); ok {
									return inner, true
								}
							}
						}
					}
				}
			}
		}
	}
	// dynamic types with an Unwrap method are not followed
	ms := ex.prog.MethodSets.MethodSet(e.T)
	for i := 0; i < ms.Len(); i++ {
		if n := ms.At(i).Obj().Name(); n == "Unwrap" || n == "Is" || n == "As" {
			panic(cutPath{"errors.Is/As through user-defined " + n + " on " + e.T.String()})
		}
	}
	return Iface{}, false
}

func intrErrorsIs(ex *Exec, st *State, f *Frame, fn FuncV, args []Value, retTo ssa.Value, instr ssa.Instruction) bool {
	err, target := args[0].(Iface), args[1].(Iface)
	if err.T == nil || target.T == nil {
		return ret(f, retTo, ex.tb.Bool(err.T == nil && target.T == nil))
	}
	for depth := 0; depth < 32; depth++ {
		if types.Identical(err.T, target.T) && types.Comparable(err.T) {
			if ex.decide(st, ex.valEq(st, err.V, target.V)) {
				return ret(f, retTo, ex.tb.True())
			}
		}
		next, ok := ex.unwrapOnce(st, err)
		if !ok || next.T == nil {
			break
		}
		err = next
	}
	return ret(f, retTo, ex.tb.False())
}

func intrErrorsAs(ex *Exec, st *State, f *Frame, fn FuncV, args []Value, retTo ssa.Value, instr ssa.Instruction) bool {
	err, target := args[0].(Iface), args[1].(Iface)
	if target.T == nil {
		panic(cutPath{"errors.As: nil target"})
	}
	pt, ok := target.T.(*types.Pointer)
	if !ok {
		panic(cutPath{"errors.As: target not a pointer"})
	}
	want := pt.Elem()
	for depth := 0; depth < 32 && err.T != nil; depth++ {
		match := false
		if it, isIface := want.Underlying().(*types.Interface); isIface {
			match = types.Implements(err.T, it)
		} else {
			match = types.Identical(err.T, want)
		}
		if match {
			if _, isIface := want.Underlying().(*types.Interface); isIface {
				ex.store(st, target.V.(Ptr), err, instr)
			} else {
				ex.store(st, target.V.(Ptr), err.V, instr)
			}
			return ret(f, retTo, ex.tb.True())
		}
		next, ok := ex.unwrapOnce(st, err)
		if !ok {
			break
		}
		err = next
	}
	return ret(f, retTo, ex.tb.False())
}

// ---- externals, natives, globals

// external: a function without a Go body (assembly, linkname). Scalar results are unconstrained fresh
// values (over-approximation, listed as a stub); anything else cuts the path.
func (ex *Exec) external(st *State, fn *ssa.Function, args []Value, instr ssa.Instruction) Value {
	rs := fn.Signature.Results()
	mk := func(t types.Type) Value {
		if w := scalarWidth(t); w != 0 {
			return ex.tb.Fresh("ext!"+fn.Name(), BV(w))
		}
		if isBoolean(t) {
			return ex.tb.Fresh("ext!"+fn.Name(), BoolSort)
		}
		panic(cutPath{"external function " + fn.String()})
	}
	ex.stubs["external "+fn.String()+" -> unconstrained result"] = true
	switch rs.Len() {
	case 0:
		return nil
	case 1:
		return mk(rs.At(0).Type())
	}
	t := make(TupleV, rs.Len())
	for i := range t {
		t[i] = mk(rs.At(i).Type())
	}
	return t
}

func (ex *Exec) callNative(st *State, f *Frame, name string, fn FuncV, args []Value, retTo ssa.Value, instr ssa.Instruction) {
	switch {
	case strings.HasPrefix(name, "rtype."):
		v := ex.rtypeMethod(st, fn.Recv.(RType), name[len("rtype."):], args)
		if retTo != nil {
			f.env[retTo] = v
		}
		f.pc++
		return
	case name == "runtimeError.Error":
		if retTo != nil {
			f.env[retTo] = fn.Recv
		}
		f.pc++
		return
	case name == "runtimeError.RuntimeError":
		f.pc++
		return
	}
	panic(cutPath{"native " + name})
}

func (ex *Exec) nativeContinue(st *State, caller *Frame, callee *Frame, res Value) {
	switch callee.nativeRet {
	case "reflect.Call":
		v := ex.reflectCallReturn(st, callee.fn, res)
		if callee.retTo != nil {
			caller.env[callee.retTo] = v
		}
		return
	}
	panic(cutPath{"native continuation " + callee.nativeRet})
}

func (ex *Exec) globalInitial(st *State, g *ssa.Global, et types.Type) Value {
	return ex.zero(et)
}

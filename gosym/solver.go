package main

import (
	"bufio"
	"fmt"
	"io"
	"os"
	"os/exec"
	"strconv"
	"strings"
	"time"
)

// Solver is a persistent SMT solver process (z3 -in by default).
type Solver struct {
	cmd     *exec.Cmd
	in      io.WriteCloser
	out     *bufio.Reader
	pr      *Printer
	tb      *TB
	log     io.Writer
	axiomsN int

	Queries   int
	Sat       int
	Unsat     int
	Unknown   int
	Errors    int
	WallMs    float64
	GetValMs  float64
	GetVals   int
	timeoutMs int
	name      string
	aliases   map[int]*Term
	lamMemo   map[int]bool
}

func NewSolver(tb *TB, bin string, args []string, logPath string) (*Solver, error) {
	cmd := exec.Command(bin, args...)
	in, err := cmd.StdinPipe()
	if err != nil {
		return nil, err
	}
	out, err := cmd.StdoutPipe()
	if err != nil {
		return nil, err
	}
	cmd.Stderr = os.Stderr
	if err := cmd.Start(); err != nil {
		return nil, err
	}
	s := &Solver{cmd: cmd, in: in, out: bufio.NewReaderSize(out, 1<<20), tb: tb, name: bin}
	s.pr = &Printer{tb: tb, emitted: map[int]bool{}, out: &strings.Builder{}}
	if logPath != "" {
		f, err := os.Create(logPath)
		if err == nil {
			s.log = f
		}
	}
	s.send("(set-option :print-success false)\n")
	if strings.Contains(bin, "cvc5") {
		s.send("(set-logic ALL)\n")
	}
	s.send("(set-option :produce-models true)\n")
	return s, nil
}

func (s *Solver) send(txt string) {
	if s.log != nil {
		io.WriteString(s.log, txt)
	}
	io.WriteString(s.in, txt)
}

func (s *Solver) Close() {
	s.send("(exit)\n")
	s.in.Close()
	done := make(chan struct{})
	go func() { s.cmd.Wait(); close(done) }()
	select {
	case <-done:
	case <-time.After(2 * time.Second):
		s.cmd.Process.Kill()
	}
}

func (s *Solver) readLine() string {
	l, err := s.out.ReadString('\n')
	if err != nil {
		return "(error \"solver died: " + err.Error() + "\")"
	}
	return strings.TrimSpace(l)
}

// readSexp reads one balanced s-expression (possibly spanning lines).
func (s *Solver) readSexp() string {
	var sb strings.Builder
	depth := 0
	started := false
	inStr := false
	inBar := false
	for {
		c, err := s.out.ReadByte()
		if err != nil {
			return sb.String()
		}
		if !started {
			if c == ' ' || c == '\n' || c == '\r' || c == '\t' {
				continue
			}
			started = true
			if c != '(' {
				// atom: read to end of line
				sb.WriteByte(c)
				rest, _ := s.out.ReadString('\n')
				sb.WriteString(strings.TrimSpace(rest))
				return sb.String()
			}
		}
		sb.WriteByte(c)
		switch {
		case inStr:
			if c == '"' {
				inStr = false
			}
		case inBar:
			if c == '|' {
				inBar = false
			}
		case c == '"':
			inStr = true
		case c == '|':
			inBar = true
		case c == '(':
			depth++
		case c == ')':
			depth--
			if depth == 0 {
				return sb.String()
			}
		}
	}
}

func (s *Solver) flushDefs() {
	// global axioms (definitional)
	for s.axiomsN < len(s.tb.axioms) {
		a := s.tb.axioms[s.axiomsN]
		s.axiomsN++
		r := s.pr.Define(a)
		fmt.Fprintf(s.pr.out, "(assert %s)\n", r)
	}
	if s.pr.out.Len() > 0 {
		s.send(s.pr.out.String())
		s.pr.out.Reset()
	}
}

type Result int

const (
	RUnsat Result = iota
	RSat
	RUnknown
)

func (r Result) String() string { return [...]string{"unsat", "sat", "unknown"}[r] }

// Check asks whether the conjunction of conds is satisfiable. If keep is true and the
// answer is sat, the solver context is left pushed so that GetValues can be called;
// the caller must then call Pop.
// hasLambda reports whether t contains a lambda-defined array (z3 refuses get-value on such terms).
func (s *Solver) hasLambda(t *Term) bool {
	if s.lamMemo == nil {
		s.lamMemo = map[int]bool{}
	}
	if v, ok := s.lamMemo[t.id]; ok {
		return v
	}
	r := t.op == ORaw && strings.HasPrefix(t.name, "(lambda")
	if !r {
		for _, a := range t.args {
			if s.hasLambda(a) {
				r = true
				break
			}
		}
	}
	s.lamMemo[t.id] = r
	return r
}

func (s *Solver) Check(conds []*Term, timeoutMs int, keep bool, want ...*Term) Result {
	s.aliases = nil
	for _, w := range want {
		s.pr.Define(w)
		if w.op != OConst && w.op != OVar && s.hasLambda(w) {
			// read the value through a fresh constant constrained equal to the term
			a := s.tb.Fresh("gv", w.sort)
			s.pr.Define(a)
			if s.aliases == nil {
				s.aliases = map[int]*Term{}
			}
			s.aliases[w.id] = a
			conds = append(append([]*Term(nil), conds...), s.tb.Eq(a, w))
		}
	}
	for _, c := range conds {
		if c.IsFalse() {
			return RUnsat
		}
	}
	conds = append(append([]*Term(nil), conds...), s.tb.AxiomsFor(conds)...)
	refs := make([]string, 0, len(conds))
	for _, c := range conds {
		if c.IsTrue() {
			continue
		}
		refs = append(refs, s.pr.Define(c))
	}
	s.flushDefs()
	var sb strings.Builder
	sb.WriteString("(push 1)\n")
	for _, r := range refs {
		fmt.Fprintf(&sb, "(assert %s)\n", r)
	}
	if timeoutMs != s.timeoutMs {
		if strings.Contains(s.name, "cvc5") {
			fmt.Fprintf(&sb, "(set-option :tlimit-per %d)\n", timeoutMs)
		} else {
			fmt.Fprintf(&sb, "(set-option :timeout %d)\n", timeoutMs)
		}
		s.timeoutMs = timeoutMs
	}
	sb.WriteString("(check-sat)\n")
	t0 := time.Now()
	s.send(sb.String())
	var res Result
	for {
		l := s.readLine()
		if l == "" {
			continue
		}
		switch {
		case l == "sat":
			res = RSat
			s.Sat++
		case l == "unsat":
			res = RUnsat
			s.Unsat++
		case l == "unknown" || strings.HasPrefix(l, "timeout"):
			res = RUnknown
			s.Unknown++
		default:
			// (error ...) or anything unexpected: inconclusive
			fmt.Fprintf(os.Stderr, "gosym: solver said: %s\n", l)
			s.Errors++
			if strings.HasPrefix(l, "(error") {
				continue // an error line precedes the real answer; remember it
			}
			res = RUnknown
			s.Unknown++
		}
		break
	}
	if s.Errors > 0 && res != RUnknown {
		// an (error …) line was seen at some point for this solver: do not trust definitive answers of this query
		// (errors are counted per solver; reset after downgrade so later clean queries are trusted)
		res = RUnknown
		s.Errors = 0
		s.Unknown++
	}
	s.Queries++
	s.WallMs += float64(time.Since(t0).Microseconds()) / 1000
	if !(keep && res == RSat) {
		s.send("(pop 1)\n")
	}
	return res
}

func (s *Solver) Pop() { s.send("(pop 1)\n") }

// GetValues evaluates BV/Bool terms in the current model (after a kept sat Check).
func (s *Solver) GetValues(ts []*Term) ([]uint64, error) {
	if len(ts) == 0 {
		return nil, nil
	}
	// all terms must already be defined before the push; terms defined now are emitted inside the push
	// scope, which is fine for z3 (define-fun inside a scope is popped) – but our Printer would think they
	// are still defined afterwards. So inline-print such terms instead.
	var sb strings.Builder
	sb.WriteString("(get-value (")
	for _, t := range ts {
		if a, ok := s.aliases[t.id]; ok {
			t = a
		}
		sb.WriteString(s.simpleRef(t))
		sb.WriteString(" ")
	}
	sb.WriteString("))\n")
	t0 := time.Now()
	s.send(sb.String())
	resp := s.readSexp()
	s.GetValMs += float64(time.Since(t0).Microseconds()) / 1000
	s.GetVals++
	if strings.HasPrefix(resp, "(error") {
		return nil, fmt.Errorf("get-value: %s", resp)
	}
	vals := parseValueList(resp)
	if len(vals) != len(ts) {
		return nil, fmt.Errorf("get-value: expected %d values, got %d in %q", len(ts), len(vals), resp)
	}
	return vals, nil
}

// simpleRef prints a term that is already defined, or a select of a defined array at a constant index.
func (s *Solver) simpleRef(t *Term) string {
	if t.op == OConst || s.pr.emitted[t.id] {
		return s.pr.ref(t)
	}
	if t.op == OVar {
		// never sent to the solver: unconstrained, any value will do
		if t.sort.K == KBool {
			return "false"
		}
		return constStr(&Term{op: OConst, sort: t.sort})
	}
	if t.op == OSelect {
		return "(select " + s.simpleRef(t.args[0]) + " " + s.simpleRef(t.args[1]) + ")"
	}
	panic("GetValues on a term that was not pre-defined: pass it in want")
}

// parseValueList parses "((e1 v1) (e2 v2) …)" returning the values as uint64.
func parseValueList(resp string) []uint64 {
	toks := tokenize(resp)
	// structure: ( ( expr value ) ( expr value ) ... )
	var vals []uint64
	pos := 0
	var skip func()
	skip = func() { // skip one sexp
		if toks[pos] == "(" {
			depth := 0
			for {
				if toks[pos] == "(" {
					depth++
				} else if toks[pos] == ")" {
					depth--
				}
				pos++
				if depth == 0 {
					return
				}
			}
		}
		pos++
	}
	if len(toks) == 0 || toks[0] != "(" {
		return nil
	}
	pos = 1
	for pos < len(toks) && toks[pos] == "(" {
		pos++    // (
		skip()   // expr
		vstart := pos
		skip()   // value
		vals = append(vals, parseValue(toks[vstart:pos]))
		pos++ // )
	}
	return vals
}

func tokenize(s string) []string {
	var toks []string
	i := 0
	for i < len(s) {
		c := s[i]
		switch {
		case c == ' ' || c == '\n' || c == '\t' || c == '\r':
			i++
		case c == '(' || c == ')':
			toks = append(toks, string(c))
			i++
		case c == '|':
			j := strings.IndexByte(s[i+1:], '|')
			toks = append(toks, s[i:i+j+2])
			i += j + 2
		case c == '"':
			j := strings.IndexByte(s[i+1:], '"')
			toks = append(toks, s[i:i+j+2])
			i += j + 2
		default:
			j := i
			for j < len(s) && !strings.ContainsRune(" \n\t\r()", rune(s[j])) {
				j++
			}
			toks = append(toks, s[i:j])
			i = j
		}
	}
	return toks
}

func parseValue(toks []string) uint64 {
	if len(toks) == 1 {
		t := toks[0]
		switch {
		case t == "true":
			return 1
		case t == "false":
			return 0
		case strings.HasPrefix(t, "#x"):
			v, _ := strconv.ParseUint(t[2:], 16, 64)
			return v
		case strings.HasPrefix(t, "#b"):
			v, _ := strconv.ParseUint(t[2:], 2, 64)
			return v
		}
		return 0
	}
	// (_ bvN w)
	if len(toks) == 5 && toks[1] == "_" && strings.HasPrefix(toks[2], "bv") {
		v, _ := strconv.ParseUint(toks[2][2:], 10, 64)
		return v
	}
	return 0
}

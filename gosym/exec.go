package main

import (
	"fmt"
	"go/token"
	"go/types"
	"os"
	"sort"
	"strings"
	"time"

	"golang.org/x/tools/go/ssa"
)

// externalRedirect maps assembly routines to the pure-Go implementation in the same package.
var externalRedirect = map[string]string{
	"crypto/sha256.block": "blockGeneric",
	"crypto/md5.block":    "blockGeneric",
	"crypto/sha1.block":   "blockGeneric",
}

// modelRedirect maps functions of the environment (operating system, mmap) to their models, ordinary Go functions of
// package internal/verifrt (harness run-time) that are executed symbolically like any other code. Every redirect is
// listed as a stub in the evidence.
var modelRedirect = map[string]string{
	"github.com/tetratelabs/wazero/internal/platform.mmapCodeSegmentAMD64": "ModelMmapCodeSegment",
	"github.com/tetratelabs/wazero/internal/platform.munmapCodeSegment": "ModelMunmapCodeSegment",
	"github.com/tetratelabs/wazero/internal/platform.MprotectRX":      "ModelMprotectRX",
	"crypto/sha256.New":    "ModelSha256New",
	"os.CreateTemp":        "ModelCreateTemp",
	"os.OpenFile":          "ModelOpenFile",
	"os.Open":              "ModelOpen",
	"os.Create":            "ModelCreate",
	"os.WriteFile":         "ModelWriteFile",
	"os.ReadFile":          "ModelReadFile",
	"os.Rename":            "ModelRename",
	"os.Remove":            "ModelRemove",
	"os.Link":              "ModelLink",
	"os.MkdirAll":          "ModelMkdirAll",
	"(*os.File).Write":     "ModelFileWrite",
	"(*os.File).WriteString": "ModelFileWriteString",
	"(*os.File).Read":      "ModelFileRead",
	"(*os.File).Sync":      "ModelFileSync",
	"(*os.File).Close":     "ModelFileClose",
	"(*os.File).Name":      "ModelFileName",
	"(*os.File).ReadFrom":  "ModelFileReadFrom",
}

const verifrtPkgPath = "github.com/tetratelabs/wazero/internal/verifrt"

type Sched struct{}

func (s *Sched) clone() *Sched { c := *s; return &c }

type Config struct {
	MaxPaths      int
	MaxSteps      int // per path
	Unwind        int // default loop bound per frame
	FeasTimeoutMs int
	OblTimeoutMs  int
	ConcrCap      int
	Deadline      time.Time
	Verbose       int
	PkgPrefix     string // packages executed from source without question
	Fix           map[string]uint64 // forced Choose values
	Thorough      bool
}

type Exec struct {
	tb    *TB
	sol   *Solver
	prog  *ssa.Program
	cfg   Config
	work  []*State
	entry string

	// results
	obls       map[string]*Obligation
	oblOrder   []string
	covers     map[string]bool
	coverModel map[string]map[string]interface{}
	paths      int
	pathsCut   map[string]int
	pathsEnded map[string]int
	instrs     int64
	funcInstrs map[string]int64
	assumes    map[string]bool
	stubs      map[string]bool
	forks      int
	inputs     []*Term          // named harness inputs in declaration order
	inputArrs  map[string]*Term // named Bytes inputs -> array variable
	inputArrOrder []string
	inputMeta  map[string]string
	known      []KnownFinding
	globals    map[*ssa.Global]int
	globalInit map[*ssa.Global]bool
	initState  *State
	pathLog    []string
	touched    map[string]map[uint64]bool
	incomplete []string
	cur        *State
	lenient    bool
	addrOf     map[Ptr]uint64
	shapes     map[string]bool // distinct Choose vectors of completed paths (program shapes)
	addrToPtr  map[uint64]Ptr
}

type KnownFinding struct {
	Property   string `json:"property"`
	Harness    string `json:"harness"`
	Obligation string `json:"obligation"` // substring matched against obligation id
	Constraint string `json:"constraint"` // SMT-LIB Bool over named inputs ("" = any)
	What       string `json:"what"`
	Status     string `json:"status,omitempty"` // "" (open) or "fixed"
	Commit     string `json:"commit,omitempty"`
}

func (ex *Exec) logf(level int, f string, a ...interface{}) {
	if ex.cfg.Verbose >= level {
		fmt.Fprintf(os.Stderr, f+"\n", a...)
	}
}

// ---- path condition and decisions

func (st *State) assume(c *Term) {
	if c.IsTrue() {
		return
	}
	st.pc = append(st.pc, c)
}

func (ex *Exec) feasible(st *State, c *Term) bool {
	if c.IsConst() {
		return c.c == 1
	}
	conds := append(append([]*Term(nil), st.pc...), c)
	r := ex.sol.Check(conds, ex.cfg.FeasTimeoutMs, false)
	return r != RUnsat // unknown: keep the branch (sound for "holds")
}

// decide returns the truth value of c on this path, forking when both are feasible.
func (ex *Exec) decide(st *State, c *Term) bool {
	if c.sort.K != KBool {
		panic("decide on non-bool")
	}
	if c.IsConst() {
		return c.c == 1
	}
	st.symDecisions++
	if v, ok := st.decided[c.id]; ok {
		return v
	}
	if c.op == ONot {
		if v, ok := st.decided[c.args[0].id]; ok {
			return !v
		}
	}
	nc := ex.tb.Not(c)
	if !ex.feasible(st, c) {
		st.assume(nc)
		st.decided[c.id] = false
		return false
	}
	if !ex.feasible(st, nc) {
		st.assume(c)
		st.decided[c.id] = true
		return true
	}
	child := st.clone()
	child.assume(nc)
	child.decided[c.id] = false
	ex.push(child)
	st.assume(c)
	st.decided[c.id] = true
	ex.forks++
	return true
}

func (ex *Exec) push(st *State) { ex.work = append(ex.work, st) }

// concretizeBelow is concretize for a term known to be < n (an index): all feasible values are found with one
// feasibility query per candidate and forked at once, which avoids extracting models from the solver.
func (ex *Exec) concretizeBelow(st *State, t *Term, n uint64, what string) uint64 {
	if t.IsConst() {
		return t.c
	}
	if v, ok := st.concr[t.id]; ok {
		return v
	}
	if n > 512 {
		return ex.concretize(st, t, what)
	}
	var feas []uint64
	for cand := uint64(0); cand < n; cand++ {
		if ex.feasible(st, ex.tb.Eq(t, ex.tb.Const(cand, t.W()))) {
			feas = append(feas, cand)
		}
	}
	if len(feas) == 0 {
		panic(cutPath{"concretize(" + what + "): no feasible value below the bound"})
	}
	for _, alt := range feas[1:] {
		child := st.clone()
		child.assume(ex.tb.Eq(t, ex.tb.Const(alt, t.W())))
		child.concr[t.id] = alt
		ex.push(child)
		ex.forks++
	}
	st.assume(ex.tb.Eq(t, ex.tb.Const(feas[0], t.W())))
	st.concr[t.id] = feas[0]
	return feas[0]
}

// concretize returns a concrete value for t on this path, forking over alternatives.
func (ex *Exec) concretize(st *State, t *Term, what string) uint64 {
	if t.IsConst() {
		return t.c
	}
	if v, ok := st.concr[t.id]; ok {
		return v
	}
	// cheap candidates first (lengths and counts are usually tiny): a feasibility query is much cheaper than
	// extracting a model from the solver
	var v uint64
	found := false
	excluded := map[uint64]bool{}
	for _, p := range st.pc {
		if p.op == ONot && p.args[0].op == OEq {
			e := p.args[0]
			if e.args[0] == t && e.args[1].IsConst() {
				excluded[e.args[1].c] = true
			} else if e.args[1] == t && e.args[0].IsConst() {
				excluded[e.args[0].c] = true
			}
		}
	}
	for cand := uint64(0); cand < 4 && !found; cand++ {
		if excluded[cand] || (t.W() < 64 && cand > mask(t.W())) {
			continue
		}
		if ex.feasible(st, ex.tb.Eq(t, ex.tb.Const(cand, t.W()))) {
			v, found = cand, true
		}
	}
	if !found {
		conds := append([]*Term(nil), st.pc...)
		r := ex.sol.Check(conds, ex.cfg.FeasTimeoutMs, true, t)
		if r != RSat {
			panic(cutPath{"concretize(" + what + "): path condition " + r.String()})
		}
		t0 := time.Now()
		vals, err := ex.sol.GetValues([]*Term{t})
		ex.logf(1, "get-value for concretize(%s) at %s: %v", what, st.where(), time.Since(t0))
		ex.sol.Pop()
		if err != nil {
			panic(cutPath{"concretize: " + err.Error()})
		}
		v = vals[0]
	}
	cv := ex.tb.Const(v, t.W())
	eq := ex.tb.Eq(t, cv)
	// alternatives
	ne := ex.tb.Not(eq)
	if ex.feasible(st, ne) {
		cnt := 0
		for _, p := range st.pc {
			if p.op == ONot && p.args[0].op == OEq && (p.args[0].args[0] == t || p.args[0].args[1] == t) {
				cnt++
			}
		}
		if cnt >= ex.cfg.ConcrCap {
			ex.noteIncomplete(fmt.Sprintf("concretisation cap (%d) reached for %s in %s", ex.cfg.ConcrCap, what, st.where()))
		} else {
			child := st.clone()
			child.assume(ne)
			ex.push(child)
			ex.forks++
		}
	}
	st.assume(eq)
	st.concr[t.id] = v
	return v
}

func (ex *Exec) noteIncomplete(s string) {
	for _, x := range ex.incomplete {
		if x == s {
			return
		}
	}
	ex.incomplete = append(ex.incomplete, s)
}

func (st *State) where() string {
	if len(st.frames) == 0 {
		return "<no frame>"
	}
	f := st.top()
	return f.fn.String()
}

func (ex *Exec) sitePos(st *State, instr ssa.Instruction) string {
	f := st.top()
	pos := token.NoPos
	if instr != nil {
		pos = instr.Pos()
	}
	if pos == token.NoPos {
		// nearest earlier instruction with a position
		for i := f.pc; i >= 0 && i < len(f.block.Instrs); i-- {
			if p := f.block.Instrs[i].Pos(); p != token.NoPos {
				pos = p
				break
			}
		}
	}
	p := ex.prog.Fset.Position(pos)
	fn := f.fn.String()
	if pos == token.NoPos {
		return fn
	}
	file := p.Filename
	if i := strings.LastIndex(file, "/"); i >= 0 {
		file = file[i+1:]
	}
	return fmt.Sprintf("%s@%s:%d", fn, file, p.Line)
}

// ---- main loop

func (ex *Exec) runAll() {
	for len(ex.work) > 0 {
		if ex.paths >= ex.cfg.MaxPaths {
			ex.noteIncomplete(fmt.Sprintf("path cap %d reached with %d states pending", ex.cfg.MaxPaths, len(ex.work)))
			return
		}
		if time.Now().After(ex.cfg.Deadline) {
			ex.noteIncomplete(fmt.Sprintf("wall-time cap reached with %d states pending", len(ex.work)))
			return
		}
		st := ex.work[len(ex.work)-1]
		ex.work = ex.work[:len(ex.work)-1]
		ex.runPath(st)
	}
}

func (ex *Exec) runPath(st *State) {
	defer func() {
		if r := recover(); r != nil {
			switch e := r.(type) {
			case cutPath:
				ex.paths++
				ex.pathsCut[e.why]++
				ex.noteIncomplete("path cut: " + e.why)
				ex.logf(1, "path cut: %s at %s", e.why, st.where())
			case endPath:
				ex.paths++
				ex.pathsEnded[e.why]++
			default:
				fmt.Fprintf(os.Stderr, "gosym internal error at %s: %v\n", st.whereDetail(ex), r)
				panic(r)
			}
		}
	}()
	for !st.done {
		if st.steps > ex.cfg.MaxSteps {
			panic(cutPath{"step cap"})
		}
		if st.stepLimit > 0 && st.steps > st.stepLimit {
			ex.recordViolation(st, "nonterm", st.where(), st.stepMsg, nil)
			panic(endPath{"step budget exceeded"})
		}
		ex.stepSafe(st)
	}
	ex.paths++
	ex.pathsEnded["returned"]++
	if ex.shapes == nil {
		ex.shapes = map[string]bool{}
	}
	ex.shapes[strings.Join(st.choices, ",")] = true
}

func (st *State) whereDetail(ex *Exec) string {
	if len(st.frames) == 0 {
		return "<no frame>"
	}
	var sb strings.Builder
	for i := len(st.frames) - 1; i >= 0 && i > len(st.frames)-8; i-- {
		f := st.frames[i]
		var ins ssa.Instruction
		if f.block != nil && f.pc < len(f.block.Instrs) {
			ins = f.block.Instrs[f.pc]
		}
		fmt.Fprintf(&sb, "\n   %s block %d pc %d: %v", f.fn, f.block.Index, f.pc, ins)
		if ins != nil {
			fmt.Fprintf(&sb, " (%s)", ex.prog.Fset.Position(ins.Pos()))
		}
	}
	return sb.String()
}

func (ex *Exec) get(f *Frame, v ssa.Value) Value {
	switch x := v.(type) {
	case *ssa.Const:
		return ex.constValue(x)
	case *ssa.Function:
		return FuncV{Fn: x}
	case *ssa.Builtin:
		return FuncV{Builtin: x}
	case *ssa.Global:
		ex.ensureGlobal(ex.cur, x)
		return Ptr{Obj: ex.globalObj(x)}
	}
	r, ok := f.env[v]
	if !ok {
		panic(fmt.Sprintf("no value for %s (%s) in %s", v.Name(), v, f.fn))
	}
	return r
}

// globalObj: globals live in every state's heap; they are created in the init state before
// the harness runs (ids are stable), lazily for globals first seen later (zero valued).
func (ex *Exec) globalObj(g *ssa.Global) int {
	if id, ok := ex.globals[g]; ok {
		return id
	}
	objCounter++
	id := objCounter
	ex.globals[g] = id
	return id
}

func (ex *Exec) ensureGlobal(st *State, g *ssa.Global) {
	id := ex.globalObj(g)
	if _, ok := st.heap[id]; ok {
		return
	}
	et := g.Type().(*types.Pointer).Elem()
	o := &Obj{id: id, kind: ObjCells, owner: st.id, typ: et, label: "global " + g.String()}
	o.Val = ex.globalInitial(st, g, et)
	st.heap[id] = o
}

func (ex *Exec) step(st *State) {
	ex.cur = st
	f := st.top()
	if f.mode != 0 {
		ex.continueDefers(st, f)
		return
	}
	instr := f.block.Instrs[f.pc]
	if st.retry {
		st.retry = false
	} else {
		st.acctDone = false
	}
	st.steps++
	ex.instrs++
	ex.funcInstrs[f.fn.String()]++
	if ex.cfg.Verbose >= 4 {
		fmt.Fprintf(os.Stderr, "  [%d] %s.%d.%d: %s\n", st.id, f.fn.Name(), f.block.Index, f.pc, instr)
	}
	switch in := instr.(type) {
	case *ssa.Jump:
		ex.jump(st, f, f.block.Succs[0])
	case *ssa.If:
		c := ex.get(f, in.Cond).(*Term)
		if !c.IsConst() && ex.ifConvert(st, f, c) {
			return
		}
		if ex.decide(st, c) {
			ex.jump(st, f, f.block.Succs[0])
		} else {
			ex.jump(st, f, f.block.Succs[1])
		}
	case *ssa.Return:
		var res Value
		switch len(in.Results) {
		case 0:
		case 1:
			res = ex.get(f, in.Results[0])
		default:
			t := make(TupleV, len(in.Results))
			for i, r := range in.Results {
				t[i] = ex.get(f, r)
			}
			res = t
		}
		ex.doReturn(st, res)
	case *ssa.Panic:
		v := ex.get(f, in.X)
		ex.raise(st, &PanicInfo{Val: v, Site: ex.sitePos(st, in)})
	case *ssa.RunDefers:
		f.pc++
		f.mode = 1
	case *ssa.Defer:
		fn, args := ex.resolveCall(st, f, &in.Call, in)
		f.defers = append(f.defers, Deferred{Fn: fn, Args: args})
		f.pc++
	case *ssa.Go:
		ex.doGo(st, f, in)
	case *ssa.Call:
		fn, args := ex.resolveCall(st, f, &in.Call, in)
		ex.call(st, fn, args, in, in)
	case *ssa.Store:
		p := ex.get(f, in.Addr).(Ptr)
		v := ex.get(f, in.Val)
		ex.store(st, p, v, in)
		f.pc++
	case *ssa.MapUpdate:
		m := ex.get(f, in.Map).(MapV)
		ex.mapUpdate(st, m, ex.get(f, in.Key), ex.get(f, in.Value), in)
		f.pc++
	case *ssa.DebugRef:
		f.pc++
	case *ssa.Select:
		f.env[in] = ex.doSelect(st, f, in)
		f.pc++
	case *ssa.Send:
		c, _ := ex.get(f, in.Chan).(ChanV)
		if c.Obj == 0 {
			panic(endPath{"send on nil channel blocks forever"})
		}
		o := st.wobj(c.Obj)
		if o.ChanClosed {
			ex.raise(st, &PanicInfo{Val: Iface{T: types.Typ[types.String], V: Str{S: "send on closed channel"}}, Site: ex.sitePos(st, in)})
			return
		}
		o.ChanQueue = append(append([]Value(nil), o.ChanQueue...), ex.get(f, in.X))
		f.pc++
	case ssa.Value:
		v := ex.evalValue(st, f, in)
		f.env[in] = v
		f.pc++
	default:
		panic(fmt.Sprintf("unhandled instruction %T", instr))
	}
}

func (ex *Exec) jump(st *State, f *Frame, to *ssa.BasicBlock) {
	from := f.block
	// loop bound: count entries to a block from a block with index >= its own (back edge approximation)
	if to.Index <= from.Index {
		if f.backEdges == nil {
			f.backEdges = map[int]int{}
		}
		// only iterations that involved a symbolic decision since the previous visit count towards the bound:
		// loops with concrete trip counts are simply executed
		if f.backSym == nil {
			f.backSym = map[int]int{}
		}
		if last, seen := f.backSym[to.Index]; !seen || last != st.symDecisions {
			f.backEdges[to.Index]++
		}
		f.backSym[to.Index] = st.symDecisions
		if f.backEdges[to.Index] > ex.cfg.Unwind {
			panic(cutPath{fmt.Sprintf("unwinding bound %d exceeded in %s", ex.cfg.Unwind, f.fn)})
		}
	}
	// evaluate phis simultaneously
	idx := -1
	for i, p := range to.Preds {
		if p == from {
			idx = i
			break
		}
	}
	var phis []*ssa.Phi
	var vals []Value
	for _, ins := range to.Instrs {
		p, ok := ins.(*ssa.Phi)
		if !ok {
			break
		}
		phis = append(phis, p)
		vals = append(vals, ex.get(f, p.Edges[idx]))
	}
	for i, p := range phis {
		f.env[p] = vals[i]
	}
	f.prev = from
	f.block = to
	f.pc = len(phis)
}

// ifConvert handles `if c` whose arms are empty (a triangle or diamond that only selects scalar phi values at the join,
// e.g. `if b { r = 1 }`): the join's phis become ite terms and the path does not fork. Reports false when the shape or a
// phi operand does not qualify (the caller then forks as usual).
func (ex *Exec) ifConvert(st *State, f *Frame, c *Term) bool {
	b := f.block
	s0, s1 := b.Succs[0], b.Succs[1]
	emptyTo := func(x *ssa.BasicBlock) *ssa.BasicBlock {
		if len(x.Instrs) == 1 && len(x.Preds) == 1 && len(x.Succs) == 1 {
			if _, ok := x.Instrs[0].(*ssa.Jump); ok {
				return x.Succs[0]
			}
		}
		return nil
	}
	var join, pT, pF *ssa.BasicBlock
	switch {
	case emptyTo(s0) != nil && emptyTo(s0) == emptyTo(s1):
		join, pT, pF = emptyTo(s0), s0, s1
	case emptyTo(s0) == s1:
		join, pT, pF = s1, s0, b
	case emptyTo(s1) == s0:
		join, pT, pF = s0, b, s1
	default:
		return false
	}
	if join.Index <= b.Index || len(join.Preds) != 2 {
		return false
	}
	iT, iF := -1, -1
	for i, p := range join.Preds {
		if p == pT {
			iT = i
		}
		if p == pF {
			iF = i
		}
	}
	if iT < 0 || iF < 0 {
		return false
	}
	var phis []*ssa.Phi
	var vals []Value
	for _, ins := range join.Instrs {
		p, ok := ins.(*ssa.Phi)
		if !ok {
			break
		}
		vt, okT := ex.get(f, p.Edges[iT]).(*Term)
		vf, okF := ex.get(f, p.Edges[iF]).(*Term)
		if !okT || !okF || vt.sort != vf.sort {
			return false
		}
		phis = append(phis, p)
		vals = append(vals, ex.tb.Ite(c, vt, vf))
	}
	if len(phis) == 0 {
		return false
	}
	for i, p := range phis {
		f.env[p] = vals[i]
	}
	f.prev = pF
	f.block = join
	f.pc = len(phis)
	return true
}

// ---- calls

// resolveCall evaluates callee and arguments of a call/defer/go.
func (ex *Exec) resolveCall(st *State, f *Frame, c *ssa.CallCommon, instr ssa.Instruction) (FuncV, []Value) {
	var args []Value
	var fn FuncV
	if c.IsInvoke() {
		recv := ex.get(f, c.Value)
		ifc, ok := recv.(Iface)
		if !ok {
			panic(cutPath{fmt.Sprintf("invoke on non-interface value %T", recv)})
		}
		if ifc.T == nil {
			ex.raiseRuntime(st, "nil", "invalid memory address or nil pointer dereference (nil interface method call)", instr)
			panic(retryStep{})
		}
		if rt, ok := ifc.V.(RType); ok {
			for _, a := range c.Args {
				args = append(args, ex.get(f, a))
			}
			return FuncV{Native: "rtype." + c.Method.Name(), Recv: rt}, args
		}
		if ifc.T == runtimeErrorType {
			return FuncV{Native: "runtimeError." + c.Method.Name(), Recv: ifc.V}, nil
		}
		m := ex.lookupMethod(ifc.T, c.Method)
		if m == nil {
			panic(cutPath{fmt.Sprintf("method %s not found on %s", c.Method.Name(), ifc.T)})
		}
		fn = FuncV{Fn: m}
		args = append(args, ifc.V)
	} else {
		v := ex.get(f, c.Value)
		fv, ok := v.(FuncV)
		if !ok {
			if o, isO := v.(Opaque); isO {
				panic(cutPath{"call of opaque function value: " + o.Why})
			}
			panic(fmt.Sprintf("call of non-function %T", v))
		}
		fn = fv
	}
	for _, a := range c.Args {
		args = append(args, ex.get(f, a))
	}
	return fn, args
}

type stubRecv struct{}

// retryStep unwinds the Go stack of the executor back to step() without ending the path
// (used after raising a panic from deep inside an instruction).
type retryStep struct{}

func (ex *Exec) lookupMethod(t types.Type, m *types.Func) *ssa.Function {
	ms := ex.prog.MethodSets.MethodSet(t)
	sel := ms.Lookup(m.Pkg(), m.Name())
	if sel == nil {
		return nil
	}
	return ex.prog.MethodValue(sel)
}

// call transfers control to fn. retTo is the SSA value (call instruction) that receives the result.
func (ex *Exec) call(st *State, fn FuncV, args []Value, retTo ssa.Value, instr ssa.Instruction) {
	f := st.top()
	if fn.Builtin != nil {
		res := ex.callBuiltin(st, f, fn.Builtin, args, instr)
		if retTo != nil {
			f.env[retTo] = res
		}
		f.pc++
		return
	}
	if fn.Native != "" {
		ex.callNative(st, f, fn.Native, fn, args, retTo, instr)
		return
	}
	if fn.Fn == nil {
		ex.raiseRuntime(st, "nil", "call of nil function", instr)
		return
	}
	name := fn.Fn.String()
	if alt, ok := modelRedirect[name]; ok {
		if p := ex.prog.ImportedPackage(verifrtPkgPath); p != nil {
			if g := p.Func(alt); g != nil && g.Blocks != nil {
				ex.stubs[name+" -> verifrt."+alt+" (environment model)"] = true
				ex.call(st, FuncV{Fn: g}, args, retTo, instr)
				return
			}
		}
	}
	if h := ex.intrinsic(name, fn.Fn); h != nil {
		if h(ex, st, f, fn, args, retTo, instr) {
			return
		}
	}
	if fn.Fn.Blocks == nil {
		if alt, ok := externalRedirect[name]; ok && fn.Fn.Pkg != nil {
			if g := fn.Fn.Pkg.Func(alt); g != nil && g.Blocks != nil {
				ex.call(st, FuncV{Fn: g}, args, retTo, instr)
				return
			}
		}
		// external function without body (assembly / linkname)
		res := ex.external(st, fn.Fn, args, instr)
		if retTo != nil {
			f.env[retTo] = res
		}
		f.pc++
		return
	}
	if len(st.frames) > 12000 {
		panic(cutPath{"call depth > 12000"})
	}
	f.pc++ // return address
	ex.pushFrame(st, fn, args, retTo)
}

func (ex *Exec) pushFrame(st *State, fn FuncV, args []Value, retTo ssa.Value) *Frame {
	nf := &Frame{fn: fn.Fn, block: fn.Fn.Blocks[0], env: make(map[ssa.Value]Value, 32), retTo: retTo}
	if len(args) != len(fn.Fn.Params) {
		panic(fmt.Sprintf("arity mismatch calling %s: %d args for %d params", fn.Fn, len(args), len(fn.Fn.Params)))
	}
	for i, p := range fn.Fn.Params {
		nf.env[p] = args[i]
	}
	for i, fv := range fn.Fn.FreeVars {
		nf.env[fv] = fn.Bindings[i]
	}
	st.frames = append(st.frames, nf)
	return nf
}

func (ex *Exec) doReturn(st *State, res Value) {
	f := st.top()
	st.frames = st.frames[:len(st.frames)-1]
	if len(st.frames) == 0 {
		st.done = true
		return
	}
	caller := st.top()
	if f.nativeRet != "" {
		ex.nativeContinue(st, caller, f, res)
		return
	}
	if f.isDefer {
		return // caller is in mode 1/2 and continues with its defers
	}
	if f.retTo != nil {
		caller.env[f.retTo] = res
	}
}

// continueDefers drives a frame that is running deferred calls (mode 1) or unwinding (mode 2).
func (ex *Exec) continueDefers(st *State, f *Frame) {
	if n := len(f.defers); n > 0 {
		d := f.defers[n-1]
		f.defers = f.defers[:n-1]
		ex.callDeferred(st, f, d)
		return
	}
	if f.mode == 1 {
		f.mode = 0
		return
	}
	// mode 2: unwinding
	if st.panic_ == nil || f.recovered {
		// recovered: resume at the Recover block or return zero values
		f.mode = 0
		f.recovered = false
		if f.fn.Recover != nil {
			f.prev = f.block
			f.block = f.fn.Recover
			f.pc = 0
			return
		}
		var res Value
		rs := f.fn.Signature.Results()
		switch rs.Len() {
		case 0:
		case 1:
			res = ex.zero(rs.At(0).Type())
		default:
			res = ex.zero(rs)
		}
		ex.doReturn(st, res)
		return
	}
	// still panicking: pop this frame and unwind the caller
	st.frames = st.frames[:len(st.frames)-1]
	if len(st.frames) == 0 {
		ex.uncaughtPanic(st)
		st.done = true
		return
	}
	caller := st.top()
	if f.nativeRet != "" {
		// panics propagate through native continuations
	}
	caller.mode = 2
}

func (ex *Exec) callDeferred(st *State, f *Frame, d Deferred) {
	fn := d.Fn.(FuncV)
	if fn.Builtin != nil {
		// deferred builtin (e.g. recover, close, delete…)
		if fn.Builtin.Name() == "recover" {
			// direct defer of recover() does not recover per spec (must be called by a deferred function) – it does in fact
			// recover when deferred directly; rare – treat as recover.
			st.panic_ = nil
			return
		}
		ex.callBuiltin(st, f, fn.Builtin, d.Args, nil)
		return
	}
	if fn.Native != "" {
		ex.callNative(st, f, fn.Native, fn, d.Args, nil, nil)
		return
	}
	if fn.Fn == nil {
		ex.raise(st, &PanicInfo{Runtime: "nil", Site: f.fn.String(), Val: nil})
		return
	}
	if h := ex.intrinsic(fn.Fn.String(), fn.Fn); h != nil {
		// intrinsics invoked as deferred calls (e.g. mutex Unlock): run with a scratch pc
		savedPc := f.pc
		savedMode := f.mode
		f.mode = 0
		if h(ex, st, f, fn, d.Args, nil, nil) {
			if st.top() == f {
				f.pc = savedPc
				if f.mode == 0 {
					f.mode = savedMode
				}
			}
			return
		}
		f.mode = savedMode
		f.pc = savedPc
	}
	if fn.Fn.Blocks == nil {
		ex.external(st, fn.Fn, d.Args, nil)
		return
	}
	nf := ex.pushFrame(st, fn, d.Args, nil)
	nf.isDefer = true
}

// raise starts panicking in the current frame.
func (ex *Exec) raise(st *State, p *PanicInfo) {
	st.panic_ = p
	f := st.top()
	f.recovered = false
	f.mode = 2
	// a panic raised inside a deferred call supersedes a recovery that call made for its parent
	for i := len(st.frames) - 1; i > 0 && st.frames[i].isDefer; i-- {
		st.frames[i-1].recovered = false
	}
}

func (ex *Exec) raiseRuntime(st *State, kind, msg string, instr ssa.Instruction) {
	site := ex.sitePos(st, instr)
	ex.raise(st, &PanicInfo{Runtime: kind, Site: site, Val: Iface{T: runtimeErrorType, V: Str{S: "runtime error: " + msg}}})
}

// runtimeErrorType is a marker dynamic type for run-time panics (implements error; see intrinsics).
var runtimeErrorType types.Type = types.NewNamed(types.NewTypeName(token.NoPos, nil, "runtime.Error(gosym)", nil), types.NewStruct(nil, nil), nil)

func (ex *Exec) uncaughtPanic(st *State) {
	p := st.panic_
	kind := "panic"
	msg := ""
	if p.Runtime != "" {
		msg = "go run-time panic (" + p.Runtime + "): " + ex.describe(st, p.Val)
	} else {
		msg = "uncaught panic: " + ex.describe(st, p.Val)
	}
	ex.recordViolation(st, kind, p.Site, msg, nil)
}

func (ex *Exec) describe(st *State, v Value) string {
	switch x := v.(type) {
	case nil:
		return "nil"
	case *Term:
		if x.IsConst() {
			return fmt.Sprintf("%d", x.c)
		}
		return "<sym>"
	case Str:
		if x.Sym == nil {
			return x.S
		}
		return "<sym string>"
	case Iface:
		if x.T == nil {
			return "nil"
		}
		return fmt.Sprintf("%s(%s)", typeShort(x.T), ex.describe(st, x.V))
	case Ptr:
		if x.Obj == 0 {
			return "nil"
		}
		if o := st.heap[x.Obj]; o != nil && o.kind == ObjCells && x.Path == "" {
			return "&" + ex.describe(st, o.Val)
		}
		return fmt.Sprintf("&obj%d%s", x.Obj, pathString(x.Path))
	case StructV:
		var parts []string
		for _, e := range x {
			parts = append(parts, ex.describe(st, e))
		}
		s := "{" + strings.Join(parts, " ") + "}"
		if len(s) > 200 {
			s = s[:200] + "…"
		}
		return s
	}
	return fmt.Sprintf("%T", v)
}

func typeShort(t types.Type) string {
	s := t.String()
	s = strings.ReplaceAll(s, "github.com/tetratelabs/wazero/", "")
	return s
}

// ---- obligations

func (ex *Exec) oblKey(kind, site, msg string) string {
	// site without line number so that ids survive unrelated edits
	s := site
	if i := strings.Index(s, "@"); i >= 0 {
		s = s[:i]
	}
	return kind + ":" + s + ":" + msg
}

func (ex *Exec) getObl(kind, site, msg string) *Obligation {
	k := ex.oblKey(kind, site, msg)
	o, ok := ex.obls[k]
	if !ok {
		o = &Obligation{ID: k, Kind: kind, Site: site, Msg: msg, Status: "unsat"}
		ex.obls[k] = o
		ex.oblOrder = append(ex.oblOrder, k)
	}
	return o
}

// recordViolation: the current path (with cond, if non-nil, added) violates an obligation.
// A model is extracted. Known findings are separated from new violations.
func (ex *Exec) recordViolation(st *State, kind, site, msg string, cond *Term) {
	o := ex.getObl(kind, site, msg)
	conds := append([]*Term(nil), st.pc...)
	if cond != nil {
		conds = append(conds, cond)
	}
	// known findings for this obligation
	var knownCs []*Term
	var knownIdx []int
	for i, k := range ex.known {
		if k.Status == "fixed" || k.Harness != ex.entry || !strings.Contains(o.ID, k.Obligation) {
			continue
		}
		var kc *Term
		if strings.TrimSpace(k.Constraint) == "" {
			kc = ex.tb.True()
		} else {
			args := append([]*Term(nil), ex.inputs...)
			for _, n := range ex.inputArrOrder {
				args = append(args, ex.inputArrs[n])
			}
			tmpl := k.Constraint
			// named inputs are referenced directly by their SMT names; a constraint that mentions an input this
			// harness path never declared cannot describe this violation
			if ex.mentionsUndeclared(tmpl) {
				kc = ex.tb.False()
			} else {
				kc = ex.tb.Raw(tmpl, BoolSort, args...)
			}
		}
		knownCs = append(knownCs, kc)
		knownIdx = append(knownIdx, i)
	}
	// 1. a violation outside every known class?
	c2 := append([]*Term(nil), conds...)
	for _, kc := range knownCs {
		c2 = append(c2, ex.tb.Not(kc))
	}
	if o.Status != "sat" {
		r := ex.checkWithModel(st, c2, o, false)
		switch r {
		case RSat:
			o.Status = "sat"
		case RUnknown:
			if o.Status == "unsat" {
				o.Status = "unknown"
			}
		}
	}
	// 2. known classes
	for j, kc := range knownCs {
		k := &ex.known[knownIdx[j]]
		tag := fmt.Sprintf("known#%d", knownIdx[j])
		ko := ex.getObl(kind, site, msg+" ["+tag+"]")
		if ko.Status == "sat" {
			continue
		}
		c3 := append(append([]*Term(nil), conds...), kc)
		if ex.checkWithModel(st, c3, ko, true) == RSat {
			ko.Status = "sat"
			ko.Known = k.What
		}
	}
}

func (ex *Exec) checkWithModel(st *State, conds []*Term, o *Obligation, isKnown bool) Result {
	st.extraTerms = conds
	defer func() { st.extraTerms = nil }()
	want := ex.modelTerms(st)
	r := ex.sol.Check(conds, ex.cfg.OblTimeoutMs, true, want...)
	if r != RSat {
		return r
	}
	o.Model = ex.extractModel(st, want)
	ex.sol.Pop()
	o.Expect = map[string]string{"kind": o.Kind, "msg": o.Msg, "site": o.Site}
	return RSat
}

// modelTerms lists the terms whose values make up a replay: named scalar inputs, lengths and
// touched indices of named byte inputs, Expected values.
func (ex *Exec) modelTerms(st *State) []*Term {
	var ts []*Term
	ts = append(ts, ex.inputs...)
	names := make([]string, 0, len(st.expects))
	for n := range st.expects {
		names = append(names, n)
	}
	sort.Strings(names)
	for _, n := range names {
		ts = append(ts, st.expects[n])
	}
	for _, n := range ex.inputArrOrder {
		if l, ok := st.inputLens[n]; ok {
			ts = append(ts, l)
		}
	}
	if len(ex.inputArrOrder) > 0 {
		ts = append(ts, ex.indexTerms(st)...)
	}
	return ts
}

var smtBuiltins = map[string]bool{"and": true, "or": true, "not": true, "=": true, "=>": true, "ite": true, "distinct": true, "_": true,
	"extract": true, "zero_extend": true, "sign_extend": true, "concat": true, "true": true, "false": true, "select": true, "let": true,
	"bvadd": true, "bvsub": true, "bvmul": true, "bvand": true, "bvor": true, "bvxor": true, "bvnot": true, "bvneg": true, "bvshl": true, "bvlshr": true,
	"bvashr": true, "bvult": true, "bvule": true, "bvugt": true, "bvuge": true, "bvslt": true, "bvsle": true, "bvsgt": true, "bvsge": true,
	"bvudiv": true, "bvurem": true, "bvsdiv": true, "bvsrem": true, "BitVec": true}

// mentionsUndeclared reports whether an SMT-LIB constraint refers to a symbol that is neither a builtin nor a declared input.
func (ex *Exec) mentionsUndeclared(c string) bool {
	for _, tok := range tokenize(c) {
		if tok == "(" || tok == ")" || smtBuiltins[tok] {
			continue
		}
		if tok[0] == '#' || (tok[0] >= '0' && tok[0] <= '9') {
			continue
		}
		name := strings.Trim(tok, "|")
		if _, ok := ex.tb.vars[name]; !ok {
			return true
		}
	}
	return false
}

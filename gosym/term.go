package main

// Hash-consed SMT terms with eager constant folding.
//
// Sorts: Bool, (_ BitVec n) with 1 <= n <= 64 (wider only as intermediate
// concat/extract, never folded), (Array (_ BitVec 64) (_ BitVec ew)).

import (
	"fmt"
	"math/bits"
	"sort"
	"strings"
)

type SortKind uint8

const (
	KBool SortKind = iota
	KBV
	KArr
)

type Sort struct {
	K  SortKind
	W  int // BV width; for arrays: element width
}

func (s Sort) String() string {
	switch s.K {
	case KBool:
		return "Bool"
	case KBV:
		return fmt.Sprintf("(_ BitVec %d)", s.W)
	default:
		return fmt.Sprintf("(Array (_ BitVec 64) (_ BitVec %d))", s.W)
	}
}

var BoolSort = Sort{K: KBool}

func BV(w int) Sort  { return Sort{K: KBV, W: w} }
func Arr(w int) Sort { return Sort{K: KArr, W: w} }

type Op uint8

const (
	OVar Op = iota
	OConst
	ONot // bv not / bool not
	OAnd
	OOr
	OXor
	ONeg
	OAdd
	OSub
	OMul
	OUDiv
	OURem
	OSDiv
	OSRem
	OShl
	OLShr
	OAShr
	OConcat
	OExtract
	OZExt
	OSExt
	OEq
	OUlt
	OUle
	OSlt
	OSle
	OIte
	OSelect
	OStore
	OConstArr // constant array with element = args[0]
	ORaw      // raw SMT-LIB text with args substituted (used for FP and UFs); name holds a template with %0 %1 …
)

var opNames = map[Op]string{
	ONeg: "bvneg", OAdd: "bvadd", OSub: "bvsub", OMul: "bvmul", OUDiv: "bvudiv", OURem: "bvurem",
	OSDiv: "bvsdiv", OSRem: "bvsrem", OShl: "bvshl", OLShr: "bvlshr", OAShr: "bvashr",
	OConcat: "concat", OEq: "=", OUlt: "bvult", OUle: "bvule", OSlt: "bvslt", OSle: "bvsle",
	OIte: "ite", OSelect: "select", OStore: "store",
}

type Term struct {
	id   int
	op   Op
	sort Sort
	args []*Term
	c    uint64 // const value (BV<=64, Bool as 0/1)
	name string // var name / raw template
	p1   int    // extract hi / extension amount
	p2   int    // extract lo
}

func (t *Term) IsConst() bool { return t.op == OConst }
func (t *Term) IsTrue() bool  { return t.op == OConst && t.sort.K == KBool && t.c == 1 }
func (t *Term) IsFalse() bool { return t.op == OConst && t.sort.K == KBool && t.c == 0 }
func (t *Term) W() int        { return t.sort.W }

// TB is the term builder (one per process).
type TB struct {
	tab   map[string]*Term
	all   []*Term
	vars  map[string]*Term
	fresh int
	// axioms are definitional assertions for fresh values (FP results), keyed by the fresh variable's term id;
	// a query asserts exactly the axioms of the fresh variables it (transitively) mentions.
	axioms   []*Term
	axiomsOf map[int][]*Term
	fvMemo   map[int][]int // term id -> ids of axiom-carrying variables below it
}

func NewTB() *TB {
	return &TB{tab: map[string]*Term{}, vars: map[string]*Term{}, axiomsOf: map[int][]*Term{}, fvMemo: map[int][]int{}}
}

// AddAxiom attaches a definitional axiom to the fresh variable v.
func (b *TB) AddAxiom(v *Term, ax *Term) { b.axiomsOf[v.id] = append(b.axiomsOf[v.id], ax) }

// axiomVars returns the ids of axiom-carrying variables occurring in t.
func (b *TB) axiomVars(t *Term) []int {
	if r, ok := b.fvMemo[t.id]; ok {
		return r
	}
	var out []int
	if t.op == OVar {
		if _, ok := b.axiomsOf[t.id]; ok {
			out = []int{t.id}
		}
	} else {
		seen := map[int]bool{}
		for _, a := range t.args {
			for _, v := range b.axiomVars(a) {
				if !seen[v] {
					seen[v] = true
					out = append(out, v)
				}
			}
		}
	}
	b.fvMemo[t.id] = out
	return out
}

// AxiomsFor returns the transitive closure of axioms needed by the given terms.
func (b *TB) AxiomsFor(ts []*Term) []*Term {
	var out []*Term
	done := map[int]bool{}
	var work []int
	for _, t := range ts {
		work = append(work, b.axiomVars(t)...)
	}
	for len(work) > 0 {
		v := work[len(work)-1]
		work = work[:len(work)-1]
		if done[v] {
			continue
		}
		done[v] = true
		for _, ax := range b.axiomsOf[v] {
			out = append(out, ax)
			for _, w := range b.axiomVars(ax) {
				if !done[w] {
					work = append(work, w)
				}
			}
		}
	}
	return out
}

func mask(w int) uint64 {
	if w >= 64 {
		return ^uint64(0)
	}
	return (uint64(1) << uint(w)) - 1
}

func sext64(v uint64, w int) int64 {
	if w >= 64 {
		return int64(v)
	}
	sh := uint(64 - w)
	return int64(v<<sh) >> sh
}

func (b *TB) mk(op Op, s Sort, args []*Term, c uint64, name string, p1, p2 int) *Term {
	var sb strings.Builder
	fmt.Fprintf(&sb, "%d|%d.%d|%d|%s|%d|%d", op, s.K, s.W, c, name, p1, p2)
	for _, a := range args {
		fmt.Fprintf(&sb, "|%d", a.id)
	}
	k := sb.String()
	if t, ok := b.tab[k]; ok {
		return t
	}
	t := &Term{id: len(b.all), op: op, sort: s, args: args, c: c, name: name, p1: p1, p2: p2}
	b.tab[k] = t
	b.all = append(b.all, t)
	return t
}

func (b *TB) Var(name string, s Sort) *Term {
	if t, ok := b.vars[name]; ok {
		if t.sort != s {
			panic("var redeclared with different sort: " + name)
		}
		return t
	}
	t := b.mk(OVar, s, nil, 0, name, 0, 0)
	b.vars[name] = t
	return t
}

func (b *TB) Fresh(prefix string, s Sort) *Term {
	b.fresh++
	return b.Var(fmt.Sprintf("%s!%d", prefix, b.fresh), s)
}

func (b *TB) Const(v uint64, w int) *Term {
	if w > 64 {
		panic("const wider than 64")
	}
	return b.mk(OConst, BV(w), nil, v&mask(w), "", 0, 0)
}

func (b *TB) Bool(v bool) *Term {
	c := uint64(0)
	if v {
		c = 1
	}
	return b.mk(OConst, BoolSort, nil, c, "", 0, 0)
}

func (b *TB) True() *Term  { return b.Bool(true) }
func (b *TB) False() *Term { return b.Bool(false) }

// ---- boolean connectives

func (b *TB) Not(x *Term) *Term {
	if x.sort.K == KBool {
		if x.IsConst() {
			return b.Bool(x.c == 0)
		}
		if x.op == ONot {
			return x.args[0]
		}
		return b.mk(ONot, BoolSort, []*Term{x}, 0, "", 0, 0)
	}
	if x.IsConst() {
		return b.Const(^x.c, x.W())
	}
	if x.op == ONot {
		return x.args[0]
	}
	return b.mk(ONot, x.sort, []*Term{x}, 0, "", 0, 0)
}

func (b *TB) And(x, y *Term) *Term {
	if x.sort.K == KBool {
		if x.IsConst() {
			if x.c == 1 {
				return y
			}
			return x
		}
		if y.IsConst() {
			if y.c == 1 {
				return x
			}
			return y
		}
		if x == y {
			return x
		}
		if x.id > y.id {
			x, y = y, x
		}
		return b.mk(OAnd, BoolSort, []*Term{x, y}, 0, "", 0, 0)
	}
	if x.IsConst() && y.IsConst() {
		return b.Const(x.c&y.c, x.W())
	}
	if y.IsConst() {
		x, y = y, x
	}
	if x.IsConst() {
		if x.c == 0 {
			return x
		}
		if x.c == mask(x.W()) {
			return y
		}
		// and with low mask 2^k-1 == zext(extract)
		if x.c&(x.c+1) == 0 {
			k := bits.Len64(x.c)
			return b.ZExt(b.Extract(y, k-1, 0), x.W())
		}
	}
	if x == y {
		return x
	}
	if !x.IsConst() && x.id > y.id {
		x, y = y, x
	}
	return b.mk(OAnd, x.sort, []*Term{x, y}, 0, "", 0, 0)
}

func (b *TB) Or(x, y *Term) *Term {
	if x.sort.K == KBool {
		if x.IsConst() {
			if x.c == 0 {
				return y
			}
			return x
		}
		if y.IsConst() {
			if y.c == 0 {
				return x
			}
			return y
		}
		if x == y {
			return x
		}
		if x.id > y.id {
			x, y = y, x
		}
		return b.mk(OOr, BoolSort, []*Term{x, y}, 0, "", 0, 0)
	}
	if x.IsConst() && y.IsConst() {
		return b.Const(x.c|y.c, x.W())
	}
	if y.IsConst() {
		x, y = y, x
	}
	if x.IsConst() {
		if x.c == 0 {
			return y
		}
		if x.c == mask(x.W()) {
			return x
		}
	}
	if x == y {
		return x
	}
	if !x.IsConst() && x.id > y.id {
		x, y = y, x
	}
	return b.mk(OOr, x.sort, []*Term{x, y}, 0, "", 0, 0)
}

func (b *TB) Xor(x, y *Term) *Term {
	if x.sort.K == KBool {
		return b.Not(b.Eq(x, y))
	}
	if x.IsConst() && y.IsConst() {
		return b.Const(x.c^y.c, x.W())
	}
	if y.IsConst() {
		x, y = y, x
	}
	if x.IsConst() && x.c == 0 {
		return y
	}
	if x == y {
		return b.Const(0, x.W())
	}
	if !x.IsConst() && x.id > y.id {
		x, y = y, x
	}
	return b.mk(OXor, x.sort, []*Term{x, y}, 0, "", 0, 0)
}

func (b *TB) Implies(x, y *Term) *Term { return b.Or(b.Not(x), y) }

func (b *TB) AndN(ts ...*Term) *Term {
	r := b.True()
	for _, t := range ts {
		r = b.And(r, t)
	}
	return r
}

// ---- arithmetic

func (b *TB) Neg(x *Term) *Term {
	if x.IsConst() {
		return b.Const(-x.c, x.W())
	}
	return b.mk(ONeg, x.sort, []*Term{x}, 0, "", 0, 0)
}

func (b *TB) bin(op Op, x, y *Term) *Term {
	if (op == OAdd || op == OMul) && x.id > y.id && !y.IsConst() {
		x, y = y, x // canonical operand order for commutative operators
	}
	if x.sort != y.sort {
		panic(fmt.Sprintf("sort mismatch in %s: %v vs %v", opNames[op], x.sort, y.sort))
	}
	return b.mk(op, x.sort, []*Term{x, y}, 0, "", 0, 0)
}

func (b *TB) Add(x, y *Term) *Term {
	if x.IsConst() && y.IsConst() {
		return b.Const(x.c+y.c, x.W())
	}
	if x.IsConst() {
		x, y = y, x
	}
	if y.IsConst() {
		if y.c == 0 {
			return x
		}
		// (a + c1) + c2
		if x.op == OAdd && x.args[1].IsConst() {
			return b.Add(x.args[0], b.Const(x.args[1].c+y.c, x.W()))
		}
	}
	return b.bin(OAdd, x, y)
}

func (b *TB) Sub(x, y *Term) *Term {
	if x.IsConst() && y.IsConst() {
		return b.Const(x.c-y.c, x.W())
	}
	if y.IsConst() {
		return b.Add(x, b.Const(-y.c, x.W()))
	}
	if x == y {
		return b.Const(0, x.W())
	}
	return b.bin(OSub, x, y)
}

func (b *TB) Mul(x, y *Term) *Term {
	if x.IsConst() && y.IsConst() {
		return b.Const(x.c*y.c, x.W())
	}
	if x.IsConst() {
		x, y = y, x
	}
	if y.IsConst() {
		if y.c == 0 {
			return y
		}
		if y.c == 1 {
			return x
		}
		if y.c&(y.c-1) == 0 {
			return b.Shl(x, b.Const(uint64(bits.TrailingZeros64(y.c)), x.W()))
		}
	}
	return b.bin(OMul, x, y)
}

// UDiv etc. follow SMT-LIB semantics for zero divisors; the executor guards Go's panic.
func (b *TB) UDiv(x, y *Term) *Term {
	if x.IsConst() && y.IsConst() {
		if y.c == 0 {
			return b.Const(mask(x.W()), x.W())
		}
		return b.Const(x.c/y.c, x.W())
	}
	if y.IsConst() && y.c != 0 && y.c&(y.c-1) == 0 {
		return b.LShr(x, b.Const(uint64(bits.TrailingZeros64(y.c)), x.W()))
	}
	return b.bin(OUDiv, x, y)
}

func (b *TB) URem(x, y *Term) *Term {
	if x.IsConst() && y.IsConst() {
		if y.c == 0 {
			return x
		}
		return b.Const(x.c%y.c, x.W())
	}
	if y.IsConst() && y.c != 0 && y.c&(y.c-1) == 0 {
		return b.And(x, b.Const(y.c-1, x.W()))
	}
	return b.bin(OURem, x, y)
}

func (b *TB) SDiv(x, y *Term) *Term {
	if x.IsConst() && y.IsConst() {
		w := x.W()
		xs, ys := sext64(x.c, w), sext64(y.c, w)
		if ys == 0 {
			if xs < 0 {
				return b.Const(1, w)
			}
			return b.Const(mask(w), w)
		}
		if ys == -1 {
			return b.Const(uint64(-xs), w)
		}
		return b.Const(uint64(xs/ys), w)
	}
	return b.bin(OSDiv, x, y)
}

func (b *TB) SRem(x, y *Term) *Term {
	if x.IsConst() && y.IsConst() {
		w := x.W()
		xs, ys := sext64(x.c, w), sext64(y.c, w)
		if ys == 0 {
			return x
		}
		if ys == -1 {
			return b.Const(0, w)
		}
		return b.Const(uint64(xs%ys), w)
	}
	return b.bin(OSRem, x, y)
}

func (b *TB) Shl(x, y *Term) *Term {
	w := x.W()
	if y.IsConst() {
		if y.c == 0 {
			return x
		}
		if y.c >= uint64(w) {
			return b.Const(0, w)
		}
		if x.IsConst() {
			return b.Const(x.c<<y.c, w)
		}
		// x << k == concat(extract(x, w-1-k, 0), 0_k)
		k := int(y.c)
		return b.Concat(b.Extract(x, w-1-k, 0), b.Const(0, k))
	}
	return b.bin(OShl, x, y)
}

func (b *TB) LShr(x, y *Term) *Term {
	w := x.W()
	if y.IsConst() {
		if y.c == 0 {
			return x
		}
		if y.c >= uint64(w) {
			return b.Const(0, w)
		}
		if x.IsConst() {
			return b.Const(x.c>>y.c, w)
		}
		k := int(y.c)
		return b.ZExt(b.Extract(x, w-1, k), w)
	}
	return b.bin(OLShr, x, y)
}

func (b *TB) AShr(x, y *Term) *Term {
	w := x.W()
	if y.IsConst() {
		if y.c == 0 {
			return x
		}
		k := y.c
		if k >= uint64(w) {
			k = uint64(w - 1)
		}
		if x.IsConst() {
			return b.Const(uint64(sext64(x.c, w)>>k), w)
		}
		return b.SExt(b.Extract(x, w-1, int(k)), w)
	}
	return b.bin(OAShr, x, y)
}

func (b *TB) Concat(hi, lo *Term) *Term {
	w := hi.W() + lo.W()
	if hi.IsConst() && lo.IsConst() && w <= 64 {
		return b.Const(hi.c<<uint(lo.W())|lo.c, w)
	}
	// zero high part == zext
	if hi.IsConst() && hi.c == 0 {
		return b.ZExt(lo, w)
	}
	// concat(extract(x,h,m+1), extract(x,m,l)) == extract(x,h,l)
	if hi.op == OExtract && lo.op == OExtract && hi.args[0] == lo.args[0] && hi.p2 == lo.p1+1 {
		return b.Extract(hi.args[0], hi.p1, lo.p2)
	}
	return b.mk(OConcat, BV(w), []*Term{hi, lo}, 0, "", 0, 0)
}

func (b *TB) Extract(x *Term, hi, lo int) *Term {
	w := hi - lo + 1
	if w <= 0 || hi >= x.W() {
		panic(fmt.Sprintf("bad extract [%d:%d] of width %d", hi, lo, x.W()))
	}
	if w == x.W() {
		return x
	}
	if x.IsConst() {
		return b.Const(x.c>>uint(lo), w)
	}
	switch x.op {
	case OExtract:
		return b.Extract(x.args[0], x.p2+hi, x.p2+lo)
	case OZExt:
		iw := x.args[0].W()
		if hi < iw {
			return b.Extract(x.args[0], hi, lo)
		}
		if lo >= iw {
			return b.Const(0, w)
		}
		return b.ZExt(b.Extract(x.args[0], iw-1, lo), w)
	case OSExt:
		iw := x.args[0].W()
		if hi < iw {
			return b.Extract(x.args[0], hi, lo)
		}
		if lo < iw {
			return b.SExt(b.Extract(x.args[0], iw-1, lo), w)
		}
	case OConcat:
		lw := x.args[1].W()
		if hi < lw {
			return b.Extract(x.args[1], hi, lo)
		}
		if lo >= lw {
			return b.Extract(x.args[0], hi-lw, lo-lw)
		}
		return b.Concat(b.Extract(x.args[0], hi-lw, 0), b.Extract(x.args[1], lw-1, lo))
	case OAnd, OOr, OXor:
		if x.sort.K == KBV {
			l, r := b.Extract(x.args[0], hi, lo), b.Extract(x.args[1], hi, lo)
			switch x.op {
			case OAnd:
				return b.And(l, r)
			case OOr:
				return b.Or(l, r)
			default:
				return b.Xor(l, r)
			}
		}
	case OIte:
		if x.args[1].IsConst() || x.args[2].IsConst() {
			return b.Ite(x.args[0], b.Extract(x.args[1], hi, lo), b.Extract(x.args[2], hi, lo))
		}
	case OAdd, OSub, OMul:
		if lo == 0 {
			l, r := b.Extract(x.args[0], hi, 0), b.Extract(x.args[1], hi, 0)
			switch x.op {
			case OAdd:
				return b.Add(l, r)
			case OSub:
				return b.Sub(l, r)
			default:
				return b.Mul(l, r)
			}
		}
	}
	return b.mk(OExtract, BV(w), []*Term{x}, 0, "", hi, lo)
}

func (b *TB) ZExt(x *Term, w int) *Term {
	if w == x.W() {
		return x
	}
	if w < x.W() {
		panic("zext to narrower")
	}
	if x.IsConst() && w <= 64 {
		return b.Const(x.c, w)
	}
	if x.op == OZExt {
		return b.ZExt(x.args[0], w)
	}
	return b.mk(OZExt, BV(w), []*Term{x}, 0, "", w-x.W(), 0)
}

func (b *TB) SExt(x *Term, w int) *Term {
	if w == x.W() {
		return x
	}
	if w < x.W() {
		panic("sext to narrower")
	}
	if x.IsConst() && w <= 64 {
		return b.Const(uint64(sext64(x.c, x.W())), w)
	}
	if x.op == OSExt {
		return b.SExt(x.args[0], w)
	}
	if x.op == OZExt { // sign bit known zero
		return b.ZExt(x.args[0], w)
	}
	return b.mk(OSExt, BV(w), []*Term{x}, 0, "", w-x.W(), 0)
}

// Resize converts to width w, extending per signedness or truncating.
func (b *TB) Resize(x *Term, w int, signed bool) *Term {
	switch {
	case w == x.W():
		return x
	case w < x.W():
		return b.Extract(x, w-1, 0)
	case signed:
		return b.SExt(x, w)
	default:
		return b.ZExt(x, w)
	}
}

// ---- predicates

func (b *TB) Eq(x, y *Term) *Term {
	if x.sort != y.sort {
		panic(fmt.Sprintf("sort mismatch in =: %v vs %v", x.sort, y.sort))
	}
	if x == y {
		return b.True()
	}
	if x.IsConst() && y.IsConst() {
		return b.Bool(x.c == y.c)
	}
	if x.sort.K == KBool {
		if x.IsConst() {
			x, y = y, x
		}
		if y.IsConst() {
			if y.c == 1 {
				return x
			}
			return b.Not(x)
		}
	}
	if x.sort.K == KBV {
		if x.IsConst() {
			x, y = y, x
		}
		if y.IsConst() {
			// zext(a) == c
			if x.op == OZExt {
				iw := x.args[0].W()
				if y.c>>uint(iw) != 0 {
					return b.False()
				}
				return b.Eq(x.args[0], b.Const(y.c, iw))
			}
			// ite(c, k1, k2) == k
			if x.op == OIte && x.args[1].IsConst() && x.args[2].IsConst() {
				t, e := x.args[1].c == y.c, x.args[2].c == y.c
				switch {
				case t && e:
					return b.True()
				case t:
					return x.args[0]
				case e:
					return b.Not(x.args[0])
				default:
					return b.False()
				}
			}
		}
	}
	if x.id > y.id {
		x, y = y, x
	}
	return b.mk(OEq, BoolSort, []*Term{x, y}, 0, "", 0, 0)
}

func (b *TB) Ne(x, y *Term) *Term { return b.Not(b.Eq(x, y)) }

func (b *TB) Ult(x, y *Term) *Term {
	if x.IsConst() && y.IsConst() {
		return b.Bool(x.c < y.c)
	}
	if x == y {
		return b.False()
	}
	if y.IsConst() && y.c == 0 {
		return b.False()
	}
	if x.IsConst() && x.c == mask(x.W()) {
		return b.False()
	}
	// zext(a) < c where c > max(a)
	if x.op == OZExt && y.IsConst() && x.args[0].W() < 64 && y.c > mask(x.args[0].W()) {
		return b.True()
	}
	return b.mk(OUlt, BoolSort, []*Term{x, y}, 0, "", 0, 0)
}

func (b *TB) Ule(x, y *Term) *Term {
	if x.IsConst() && y.IsConst() {
		return b.Bool(x.c <= y.c)
	}
	if x == y {
		return b.True()
	}
	if x.IsConst() && x.c == 0 {
		return b.True()
	}
	if y.IsConst() && y.c == mask(y.W()) {
		return b.True()
	}
	if x.op == OZExt && y.IsConst() && x.args[0].W() < 64 && y.c >= mask(x.args[0].W()) {
		return b.True()
	}
	return b.mk(OUle, BoolSort, []*Term{x, y}, 0, "", 0, 0)
}

func (b *TB) Slt(x, y *Term) *Term {
	if x.IsConst() && y.IsConst() {
		return b.Bool(sext64(x.c, x.W()) < sext64(y.c, y.W()))
	}
	if x == y {
		return b.False()
	}
	return b.mk(OSlt, BoolSort, []*Term{x, y}, 0, "", 0, 0)
}

func (b *TB) Sle(x, y *Term) *Term {
	if x.IsConst() && y.IsConst() {
		return b.Bool(sext64(x.c, x.W()) <= sext64(y.c, y.W()))
	}
	if x == y {
		return b.True()
	}
	return b.mk(OSle, BoolSort, []*Term{x, y}, 0, "", 0, 0)
}

func (b *TB) Ugt(x, y *Term) *Term { return b.Ult(y, x) }
func (b *TB) Uge(x, y *Term) *Term { return b.Ule(y, x) }
func (b *TB) Sgt(x, y *Term) *Term { return b.Slt(y, x) }
func (b *TB) Sge(x, y *Term) *Term { return b.Sle(y, x) }

func (b *TB) Ite(c, x, y *Term) *Term {
	if c.IsConst() {
		if c.c == 1 {
			return x
		}
		return y
	}
	if x == y {
		return x
	}
	if x.sort != y.sort {
		panic(fmt.Sprintf("sort mismatch in ite: %v vs %v", x.sort, y.sort))
	}
	if x.sort.K == KBool {
		if x.IsConst() && y.IsConst() {
			if x.c == 1 {
				return c
			}
			return b.Not(c)
		}
		if x.IsConst() {
			if x.c == 1 {
				return b.Or(c, y)
			}
			return b.And(b.Not(c), y)
		}
		if y.IsConst() {
			if y.c == 1 {
				return b.Or(b.Not(c), x)
			}
			return b.And(c, x)
		}
	}
	if c.op == ONot {
		return b.Ite(c.args[0], y, x)
	}
	return b.mk(OIte, x.sort, []*Term{c, x, y}, 0, "", 0, 0)
}

// BoolToBV: ite(c, 1, 0) of width w.
func (b *TB) BoolToBV(c *Term, w int) *Term { return b.Ite(c, b.Const(1, w), b.Const(0, w)) }

// ---- arrays

func (b *TB) ConstArr(elem *Term) *Term {
	return b.mk(OConstArr, Arr(elem.W()), []*Term{elem}, 0, "", 0, 0)
}

func (b *TB) Select(a, i *Term) *Term {
	if i.W() != 64 {
		panic("select index must be BV64")
	}
	// read over write
	for {
		switch a.op {
		case OStore:
			j := a.args[1]
			if j == i {
				return a.args[2]
			}
			if j.IsConst() && i.IsConst() {
				a = a.args[0]
				continue
			}
			// distinct by syntactic offset: (base + c1) vs (base + c2)
			if distinctOffsets(i, j) {
				a = a.args[0]
				continue
			}
		case OConstArr:
			return a.args[0]
		case OIte:
			// select(ite(c,a1,a2),i): keep as is
		}
		break
	}
	return b.mk(OSelect, BV(a.sort.W), []*Term{a, i}, 0, "", 0, 0)
}

func splitOffset(t *Term) (*Term, uint64) {
	if t.op == OAdd && t.args[1].IsConst() {
		return t.args[0], t.args[1].c
	}
	if t.IsConst() {
		return nil, t.c
	}
	return t, 0
}

func distinctOffsets(i, j *Term) bool {
	bi, ci := splitOffset(i)
	bj, cj := splitOffset(j)
	return bi == bj && ci != cj
}

func (b *TB) Store(a, i, v *Term) *Term {
	if i.W() != 64 {
		panic("store index must be BV64")
	}
	if v.W() != a.sort.W {
		panic("store elem width mismatch")
	}
	if a.op == OStore && a.args[1] == i {
		a = a.args[0]
	}
	return b.mk(OStore, a.sort, []*Term{a, i, v}, 0, "", 0, 0)
}

// Raw builds a term from an SMT-LIB template: %0, %1 … are replaced by the args' names.
func (b *TB) Raw(tmpl string, s Sort, args ...*Term) *Term {
	return b.mk(ORaw, s, args, 0, tmpl, 0, 0)
}

// ---- printing

// Printer emits definitions incrementally: each compound term becomes a define-fun once.
type Printer struct {
	tb      *TB
	emitted map[int]bool
	out     *strings.Builder
}

func constStr(t *Term) string {
	if t.sort.K == KBool {
		if t.c == 1 {
			return "true"
		}
		return "false"
	}
	if t.W()%4 == 0 {
		return fmt.Sprintf("#x%0*x", t.W()/4, t.c)
	}
	return fmt.Sprintf("#b%0*b", t.W(), t.c)
}

func smtName(n string) string {
	for _, r := range n {
		if !(r >= 'a' && r <= 'z' || r >= 'A' && r <= 'Z' || r >= '0' && r <= '9' || r == '_' || r == '.' || r == '!') {
			return "|" + n + "|"
		}
	}
	return n
}

func (p *Printer) ref(t *Term) string {
	switch t.op {
	case OConst:
		return constStr(t)
	case OVar:
		return smtName(t.name)
	}
	return fmt.Sprintf("t%d", t.id)
}

// Define makes sure t and everything below it has been defined; returns the reference.
func (p *Printer) Define(t *Term) string {
	if t.op == OConst {
		return constStr(t)
	}
	if p.emitted[t.id] {
		return p.ref(t)
	}
	// iterative post-order
	type fr struct {
		t *Term
		i int
	}
	st := []fr{{t, 0}}
	for len(st) > 0 {
		f := &st[len(st)-1]
		if p.emitted[f.t.id] || f.t.op == OConst {
			st = st[:len(st)-1]
			continue
		}
		if f.i < len(f.t.args) {
			a := f.t.args[f.i]
			f.i++
			if !p.emitted[a.id] && a.op != OConst {
				st = append(st, fr{a, 0})
			}
			continue
		}
		p.emit(f.t)
		p.emitted[f.t.id] = true
		st = st[:len(st)-1]
	}
	return p.ref(t)
}

func (p *Printer) emit(t *Term) {
	o := p.out
	if t.op == OVar {
		fmt.Fprintf(o, "(declare-fun %s () %s)\n", smtName(t.name), t.sort)
		return
	}
	fmt.Fprintf(o, "(define-fun t%d () %s ", t.id, t.sort)
	a := func(i int) string { return p.ref(t.args[i]) }
	switch t.op {
	case ONot:
		if t.sort.K == KBool {
			fmt.Fprintf(o, "(not %s)", a(0))
		} else {
			fmt.Fprintf(o, "(bvnot %s)", a(0))
		}
	case OAnd, OOr, OXor:
		n := map[Op][2]string{OAnd: {"and", "bvand"}, OOr: {"or", "bvor"}, OXor: {"xor", "bvxor"}}[t.op]
		k := 1
		if t.sort.K == KBool {
			k = 0
		}
		fmt.Fprintf(o, "(%s %s %s)", n[k], a(0), a(1))
	case OExtract:
		fmt.Fprintf(o, "((_ extract %d %d) %s)", t.p1, t.p2, a(0))
	case OZExt:
		fmt.Fprintf(o, "((_ zero_extend %d) %s)", t.p1, a(0))
	case OSExt:
		fmt.Fprintf(o, "((_ sign_extend %d) %s)", t.p1, a(0))
	case OConstArr:
		fmt.Fprintf(o, "((as const %s) %s)", t.sort, a(0))
	case ORaw:
		s := t.name
		for i := len(t.args) - 1; i >= 0; i-- {
			s = strings.ReplaceAll(s, fmt.Sprintf("%%%d", i), a(i))
		}
		o.WriteString(s)
	default:
		fmt.Fprintf(o, "(%s", opNames[t.op])
		for i := range t.args {
			o.WriteString(" ")
			o.WriteString(a(i))
		}
		o.WriteString(")")
	}
	o.WriteString(")\n")
}

// Vars returns the variables occurring in t, sorted by name.
func (b *TB) VarsOf(ts ...*Term) []*Term {
	seen := map[int]bool{}
	var out []*Term
	var st []*Term
	st = append(st, ts...)
	for len(st) > 0 {
		t := st[len(st)-1]
		st = st[:len(st)-1]
		if seen[t.id] {
			continue
		}
		seen[t.id] = true
		if t.op == OVar {
			out = append(out, t)
		}
		st = append(st, t.args...)
	}
	sort.Slice(out, func(i, j int) bool { return out[i].name < out[j].name })
	return out
}

// Eval evaluates t under a model of its variables (BV/Bool only; arrays via callback).
// Used for cheap pre-checks; returns ok=false if anything is not evaluable.
func (b *TB) Eval(t *Term, env map[string]uint64) (uint64, bool) {
	memo := map[int]uint64{}
	var ev func(t *Term) (uint64, bool)
	ev = func(t *Term) (uint64, bool) {
		if v, ok := memo[t.id]; ok {
			return v, true
		}
		var r uint64
		switch t.op {
		case OConst:
			r = t.c
		case OVar:
			v, ok := env[t.name]
			if !ok || t.sort.K == KArr {
				return 0, false
			}
			r = v
		default:
			return 0, false
		}
		memo[t.id] = r
		return r, true
	}
	return ev(t)
}

package main

import (
	"fmt"
	"go/types"
	"unicode/utf8"

	"golang.org/x/tools/go/ssa"
)

// ---- builtins

func (ex *Exec) callBuiltin(st *State, f *Frame, b *ssa.Builtin, args []Value, instr ssa.Instruction) Value {
	tb := ex.tb
	switch b.Name() {
	case "len":
		return ex.lenOf(st, args[0], b.Type().(*types.Signature).Params().At(0).Type())
	case "cap":
		switch a := args[0].(type) {
		case SliceV:
			return a.Cap
		case ArrayV:
			return ex.c64(uint64(len(a)))
		case Ptr:
			n := b.Type().(*types.Signature).Params().At(0).Type().Underlying().(*types.Pointer).Elem().Underlying().(*types.Array).Len()
			return ex.c64(uint64(n))
		case ChanV:
			return ex.c64(0)
		}
	case "append":
		return ex.appendOp(st, args[0].(SliceV), args[1], b.Type().(*types.Signature).Params().At(0).Type(), instr)
	case "copy":
		dst := args[0].(SliceV)
		var n *Term
		switch src := args[1].(type) {
		case SliceV:
			n = tb.Ite(tb.Ult(dst.Len, src.Len), dst.Len, src.Len)
			ex.copyElems(st, dst, ex.c64(0), src, n)
		case Str:
			sl := ex.c64(uint64(strLen(src)))
			n = tb.Ite(tb.Ult(dst.Len, sl), dst.Len, sl)
			ex.copyElems(st, dst, ex.c64(0), src, n)
		}
		return n
	case "delete":
		ex.mapDelete(st, args[0].(MapV), args[1])
		return nil
	case "clear":
		switch a := args[0].(type) {
		case MapV:
			if a.Obj != 0 {
				o := st.wobj(a.Obj)
				o.Entries = nil
			}
		case SliceV:
			et := b.Type().(*types.Signature).Params().At(0).Type().Underlying().(*types.Slice).Elem()
			ex.fillZero(st, a, et)
		}
		return nil
	case "min", "max":
		t := b.Type().(*types.Signature).Params().At(0).Type()
		res := args[0].(*Term)
		for _, a := range args[1:] {
			y := a.(*Term)
			var lt *Term
			switch {
			case isFloat(t):
				panic(cutPath{"min/max on floats"})
			case isUnsigned(t):
				lt = tb.Ult(y, res)
			default:
				lt = tb.Slt(y, res)
			}
			if b.Name() == "max" {
				if isUnsigned(t) {
					lt = tb.Ult(res, y)
				} else {
					lt = tb.Slt(res, y)
				}
			}
			res = tb.Ite(lt, y, res)
		}
		return res
	case "print", "println":
		return nil
	case "recover":
		if f.isDefer && st.panic_ != nil && len(st.frames) >= 2 {
			parent := st.frames[len(st.frames)-2]
			if parent.mode == 2 && !parent.recovered {
				v := st.panic_.Val
				parent.recovered = true
				st.panic_ = nil
				if v == nil {
					return Iface{}
				}
				if iv, ok := v.(Iface); ok {
					return iv
				}
				return Iface{T: types.Typ[types.String], V: v}
			}
		}
		return Iface{}
	case "panic":
		ex.raise(st, &PanicInfo{Val: args[0], Site: ex.sitePos(st, instr)})
		panic(retryStep{})
	case "ssa:wrapnilchk":
		p := args[0].(Ptr)
		if p.Obj == 0 {
			ex.throwRuntime(st, "nil", "value method called using nil pointer", instr)
		}
		return p
	case "String": // unsafe.String(ptr, len)
		p := args[0].(Ptr)
		n := ex.toInt64(args[1].(*Term), b.Type().(*types.Signature).Params().At(1).Type())
		if p.Obj == 0 {
			return Str{}
		}
		sl := ex.sliceFromElemPtr(st, p, n)
		return ex.mkStr(ex.sliceBytes(st, sl, "unsafe.String"))
	case "Slice": // unsafe.Slice(ptr, len)
		p := args[0].(Ptr)
		n := ex.toInt64(args[1].(*Term), b.Type().(*types.Signature).Params().At(1).Type())
		if p.Obj == 0 {
			return SliceV{Off: ex.c64(0), Len: ex.c64(0), Cap: ex.c64(0)}
		}
		return ex.sliceFromElemPtr(st, p, n)
	case "SliceData":
		s := args[0].(SliceV)
		if s.Obj == 0 {
			return Ptr{}
		}
		return ex.elemPtr(st, s, ex.c64(0))
	case "StringData":
		str := args[0].(Str)
		bs := ex.strBytes(str)
		if len(bs) == 0 {
			return Ptr{}
		}
		o := st.newObj(ObjCells, types.NewArray(types.Typ[types.Uint8], int64(len(bs))), "stringdata")
		arr := make(ArrayV, len(bs))
		for i := range bs {
			arr[i] = bs[i]
		}
		o.Val = arr
		return Ptr{Obj: o.id, Path: pathAppend("", 0)}
	case "close":
		if c, ok := args[0].(ChanV); ok && c.Obj != 0 {
			if o, exists := st.heap[c.Obj]; exists && o.kind == ObjChan {
				st.wobj(c.Obj).ChanClosed = true
			}
		}
		return nil
	}
	panic(fmt.Sprintf("builtin %s on %T", b.Name(), args[0]))
}

func (ex *Exec) lenOf(st *State, v Value, t types.Type) Value {
	switch a := v.(type) {
	case Str:
		return ex.c64(uint64(strLen(a)))
	case SliceV:
		return a.Len
	case ArrayV:
		return ex.c64(uint64(len(a)))
	case Ptr:
		n := t.Underlying().(*types.Pointer).Elem().Underlying().(*types.Array).Len()
		return ex.c64(uint64(n))
	case MapV:
		if a.Obj == 0 {
			return ex.c64(0)
		}
		n := 0
		for _, e := range st.obj(a.Obj).Entries {
			if !e.Deleted {
				n++
			}
		}
		return ex.c64(uint64(n))
	case ChanV:
		return ex.c64(0)
	}
	panic(fmt.Sprintf("len of %T", v))
}

// elemPtr returns a pointer to element i (relative to the slice start) of s.
func (ex *Exec) elemPtr(st *State, s SliceV, i *Term) Ptr {
	e := ex.tb.Add(s.Off, i)
	o := st.obj(s.Obj)
	if o.kind == ObjSmt || o.kind == ObjSparse {
		return Ptr{Obj: s.Obj, Sym: e}
	}
	if e.IsConst() {
		return Ptr{Obj: s.Obj, Path: pathAppend(s.Path, int(e.c))}
	}
	return Ptr{Obj: s.Obj, Path: s.Path, Sym: e}
}

// sliceFromElemPtr builds a slice of n elements starting at the array element p points to.
func (ex *Exec) sliceFromElemPtr(st *State, p Ptr, n *Term) SliceV {
	o := st.obj(p.Obj)
	if o.kind == ObjSmt {
		return SliceV{Obj: p.Obj, Off: p.Sym, Len: n, Cap: n}
	}
	if p.Sym != nil {
		return SliceV{Obj: p.Obj, Path: p.Path, Off: p.Sym, Len: n, Cap: n}
	}
	el := pathElems(p.Path)
	if len(el) == 0 {
		// pointer to a scalar object: one-element view
		panic(cutPath{"unsafe.Slice/String from a pointer that is not an array element"})
	}
	parent := p.Path[:len(p.Path)-4]
	if _, ok := navGet(o.Val, el[:len(el)-1]).(ArrayV); !ok {
		panic(cutPath{"unsafe.Slice/String from a pointer that is not an array element"})
	}
	return SliceV{Obj: p.Obj, Path: parent, Off: ex.c64(uint64(el[len(el)-1])), Len: n, Cap: n}
}

var lambdaCounter int

// copyElems copies n elements from src (SliceV or Str) to dst starting at dst element index dstIdx.
// n has already been checked to fit.
func (ex *Exec) copyElems(st *State, dst SliceV, dstIdx *Term, src Value, n *Term) {
	tb := ex.tb
	if n.IsConst() && n.c == 0 {
		return
	}
	if dst.Obj == 0 {
		return
	}
	do := st.obj(dst.Obj)
	srcS, srcIsSlice := src.(SliceV)
	if do.kind == ObjSmt && srcIsSlice && srcS.Obj != 0 && st.obj(srcS.Obj).kind == ObjSmt && !(n.IsConst() && n.c <= 64) {
		so := st.obj(srcS.Obj)
		if so.EW != do.EW {
			panic(cutPath{"bulk copy between arrays of different element width"})
		}
		lambdaCounter++
		iv := fmt.Sprintf("li!%d", lambdaCounter)
		// %0 dst array, %1 dst start, %2 src array, %3 n, %4 src start
		tmpl := fmt.Sprintf("(lambda ((%s (_ BitVec 64))) (ite (and (bvule %%1 %s) (bvult (bvsub %s %%1) %%3)) (select %%2 (bvadd (bvsub %s %%1) %%4)) (select %%0 %s)))", iv, iv, iv, iv, iv)
		start := tb.Add(dst.Off, dstIdx)
		na := tb.Raw(tmpl, do.Arr.sort, do.Arr, start, so.Arr, n, srcS.Off)
		w := st.wobj(dst.Obj)
		w.Arr = na
		return
	}
	cnt := ex.concretize(st, n, "copy length")
	if cnt > 1<<16 {
		panic(cutPath{"element-wise copy of more than 65536 elements"})
	}
	vals := make([]Value, cnt)
	switch s := src.(type) {
	case SliceV:
		for i := uint64(0); i < cnt; i++ {
			vals[i] = ex.load(st, ex.elemPtr(st, s, ex.c64(i)), nil)
		}
	case Str:
		b := ex.strBytes(s)
		for i := uint64(0); i < cnt; i++ {
			vals[i] = b[i]
		}
	}
	for i := uint64(0); i < cnt; i++ {
		ex.store(st, ex.elemPtr(st, dst, tb.Add(dstIdx, ex.c64(i))), vals[i], nil)
	}
}

func (ex *Exec) fillZero(st *State, s SliceV, et types.Type) {
	if s.Obj == 0 {
		return
	}
	o := st.obj(s.Obj)
	if o.kind == ObjSparse {
		if s.Off.IsConst() && s.Off.c == 0 && valueIsZero(o.SpDef) {
			// clearing a prefix [0,len): drop the writes the path condition places inside it
			var keep []SpWrite
			for _, wr := range o.SpWrites {
				if !ex.decide(st, ex.tb.Ult(wr.Idx, s.Len)) {
					keep = append(keep, wr)
				}
			}
			w := st.wobj(s.Obj)
			w.SpWrites = keep
			return
		}
		panic(cutPath{"clear of a sparse array that is not sliced from its start"})
	}
	if o.kind == ObjSmt && !(s.Len.IsConst() && s.Len.c <= 64) {
		lambdaCounter++
		iv := fmt.Sprintf("li!%d", lambdaCounter)
		tmpl := fmt.Sprintf("(lambda ((%s (_ BitVec 64))) (ite (and (bvule %%1 %s) (bvult (bvsub %s %%1) %%2)) %%3 (select %%0 %s)))", iv, iv, iv, iv)
		w := st.wobj(s.Obj)
		w.Arr = ex.tb.Raw(tmpl, o.Arr.sort, o.Arr, s.Off, s.Len, ex.tb.Const(0, o.EW))
		return
	}
	n := ex.concretize(st, s.Len, "clear length")
	z := ex.zero(et)
	for i := uint64(0); i < n; i++ {
		ex.store(st, ex.elemPtr(st, s, ex.c64(i)), z, nil)
	}
}

// Go 1.23 size classes (runtime/sizeclasses.go)
var sizeClasses = []uint64{0, 8, 16, 24, 32, 48, 64, 80, 96, 112, 128, 144, 160, 176, 192, 208, 224, 240, 256, 288, 320, 352, 384, 416, 448, 480, 512, 576, 640, 704, 768, 896, 1024, 1152, 1280, 1408, 1536, 1792, 2048, 2304, 2688, 3072, 3200, 3456, 4096, 4864, 5376, 6144, 6528, 6784, 6912, 8192, 9472, 9728, 10240, 10880, 12288, 13568, 14336, 16384, 18432, 19072, 20480, 21760, 24576, 27264, 28672, 32768}

func roundupsize(size uint64, noscan bool) uint64 {
	if size <= 32768-8 || (noscan && size <= 32768) {
		// runtime: small sizes with pointers reserve 8 bytes for the malloc header when size > 512
		if !noscan && size > 512 {
			size += 8
			for _, c := range sizeClasses {
				if c >= size {
					return c - 8
				}
			}
		}
		for _, c := range sizeClasses {
			if c >= size {
				return c
			}
		}
	}
	// large: round up to page size
	return (size + 8191) &^ 8191
}

func nextslicecap(newLen, oldCap uint64) uint64 {
	newcap := oldCap
	doublecap := newcap + newcap
	if newLen > doublecap {
		return newLen
	}
	const threshold = 256
	if oldCap < threshold {
		return doublecap
	}
	for {
		newcap += (newcap + 3*threshold) >> 2
		if newcap >= newLen {
			break
		}
	}
	return newcap
}

func hasPointers(t types.Type) bool {
	switch u := under(t).(type) {
	case *types.Basic:
		return u.Kind() == types.String || u.Kind() == types.UnsafePointer
	case *types.Struct:
		for i := 0; i < u.NumFields(); i++ {
			if hasPointers(u.Field(i).Type()) {
				return true
			}
		}
		return false
	case *types.Array:
		return hasPointers(u.Elem())
	}
	return true
}

func (ex *Exec) appendOp(st *State, s SliceV, extra Value, sliceT types.Type, instr ssa.Instruction) Value {
	tb := ex.tb
	et := sliceT.Underlying().(*types.Slice).Elem()
	var n *Term
	switch e := extra.(type) {
	case SliceV:
		n = e.Len
	case Str:
		n = ex.c64(uint64(strLen(e)))
	default:
		panic(fmt.Sprintf("append of %T", extra))
	}
	if n.IsConst() && n.c == 0 {
		return s
	}
	newLen := tb.Add(s.Len, n)
	if s.Obj != 0 && ex.decide(st, tb.Ule(newLen, s.Cap)) {
		// fits in place
		ex.copyElems(st, SliceV{Obj: s.Obj, Path: s.Path, Off: s.Off, Len: newLen, Cap: s.Cap}, s.Len, extra, n)
		return SliceV{Obj: s.Obj, Path: s.Path, Off: s.Off, Len: newLen, Cap: s.Cap}
	}
	// grow
	esz := uint64(sizeof(et))
	if esz == 0 {
		esz = 1
	}
	w := scalarWidth(et)
	var srcSmt bool
	if s.Obj != 0 {
		srcSmt = st.obj(s.Obj).kind == ObjSmt
	}
	if w != 0 && (srcSmt || !newLen.IsConst() || newLen.c > 1<<16) {
		// symbolic growth of a scalar buffer: capacity is any value >= newLen (over-approximates growslice)
		nc := tb.Fresh("cap", BV(64))
		st.assume(tb.Uge(nc, newLen))
		// runtime.growslice never more than doubles (plus size-class rounding): nc <= 2*(oldCap+newLen) + 8192
		st.assume(tb.Ule(newLen, ex.c64(1<<46)))
		st.assume(tb.Ule(s.Cap, ex.c64(1<<46)))
		st.assume(tb.Ule(nc, tb.Add(tb.Shl(tb.Add(s.Cap, newLen), ex.c64(1)), ex.c64(8192))))
		o := st.newObj(ObjSmt, et, "append")
		o.EW = w
		o.ALen = nc
		lambdaCounter++
		iv := fmt.Sprintf("li!%d", lambdaCounter)
		if s.Obj != 0 && srcSmt {
			so := st.obj(s.Obj)
			// %0 old array, %1 old off, %2 old len
			tmpl := fmt.Sprintf("(lambda ((%s (_ BitVec 64))) (ite (bvult %s %%2) (select %%0 (bvadd %s %%1)) %%3))", iv, iv, iv)
			o.Arr = tb.Raw(tmpl, Arr(w), so.Arr, s.Off, s.Len, tb.Const(0, w))
		} else {
			o.Arr = tb.ConstArr(tb.Const(0, w))
			if s.Obj != 0 {
				// copy old Cells elements
				ns0 := SliceV{Obj: o.id, Off: ex.c64(0), Len: s.Len, Cap: nc}
				ex.copyElems(st, ns0, ex.c64(0), s, s.Len)
			}
		}
		o.Init = o.Arr
		ns := SliceV{Obj: o.id, Off: ex.c64(0), Len: newLen, Cap: nc}
		ex.copyElems(st, ns, s.Len, extra, n)
		ex.account(st, tb.Mul(nc, ex.c64(esz)), instr)
		return ns
	}
	var srcSparse, extraSparse bool
	if s.Obj != 0 {
		srcSparse = st.obj(s.Obj).kind == ObjSparse
	}
	if es, ok := extra.(SliceV); ok && es.Obj != 0 {
		extraSparse = st.obj(es.Obj).kind == ObjSparse
	}
	if w == 0 && (srcSparse || extraSparse || !newLen.IsConst() || newLen.c > 1<<16) {
		// symbolic growth of a buffer of non-scalar elements: the result is a sparse array
		nc := tb.Fresh("cap", BV(64))
		st.assume(tb.Uge(nc, newLen))
		st.assume(tb.Ule(newLen, ex.c64(1<<46)))
		st.assume(tb.Ule(s.Cap, ex.c64(1<<46)))
		st.assume(tb.Ule(nc, tb.Add(tb.Shl(tb.Add(s.Cap, newLen), ex.c64(1)), ex.c64(8192))))
		o := st.newObj(ObjSparse, et, "append")
		o.ALen = nc
		o.SpDef = ex.zero(et)
		var writes []SpWrite
		// old elements
		if s.Obj != 0 {
			if srcSparse {
				so := st.obj(s.Obj)
				if !(s.Off.IsConst() && s.Off.c == 0) {
					panic(cutPath{"append to a sparse array that is not sliced from its start"})
				}
				if !valueIsZero(so.SpDef) {
					panic(cutPath{"append to a sparse array with a non-zero default"})
				}
				// writes at or beyond the old length are not part of the slice: keep only those the path condition places inside
				for _, wr := range so.SpWrites {
					if ex.decide(st, tb.Ult(wr.Idx, s.Len)) {
						writes = append(writes, wr)
					}
				}
			} else {
				oldLen := ex.concretize(st, s.Len, "append: old length")
				if oldLen > 1<<16 {
					panic(cutPath{"append: more than 65536 old non-scalar elements"})
				}
				for i := uint64(0); i < oldLen; i++ {
					writes = append(writes, SpWrite{Idx: ex.c64(i), V: ex.load(st, ex.elemPtr(st, s, ex.c64(i)), nil)})
				}
			}
		}
		// appended elements
		switch e := extra.(type) {
		case SliceV:
			if e.Obj != 0 {
				if extraSparse {
					eo := st.obj(e.Obj)
					if len(eo.SpWrites) != 0 || !valueIsZero(eo.SpDef) {
						panic(cutPath{"append of a sparse array that has been written"})
					}
				} else {
					cnt := ex.concretize(st, n, "append: added length")
					if cnt > 1<<16 {
						panic(cutPath{"append: more than 65536 added non-scalar elements"})
					}
					for i := uint64(0); i < cnt; i++ {
						writes = append(writes, SpWrite{Idx: tb.Add(s.Len, ex.c64(i)), V: ex.load(st, ex.elemPtr(st, e, ex.c64(i)), nil)})
					}
				}
			}
		default:
			panic(cutPath{"append of a string to non-scalar elements"})
		}
		o.SpWrites = writes
		ex.account(st, tb.Mul(nc, ex.c64(esz)), instr)
		return SliceV{Obj: o.id, Off: ex.c64(0), Len: newLen, Cap: nc}
	}
	oldLen := ex.concretize(st, s.Len, "append: old length")
	oldCap := ex.concretize(st, s.Cap, "append: old capacity")
	add := ex.concretize(st, n, "append: added length")
	nl := oldLen + add
	nc := nextslicecap(nl, oldCap)
	mem := roundupsize(nc*esz, !hasPointers(et))
	nc = mem / esz
	if nc > 1<<20 {
		panic(cutPath{"append growing beyond 2^20 elements"})
	}
	o := st.newObj(ObjCells, types.NewArray(et, int64(nc)), "append")
	arr := make(ArrayV, nc)
	z := ex.zero(et)
	for i := range arr {
		arr[i] = z
	}
	for i := uint64(0); i < oldLen; i++ {
		arr[i] = ex.load(st, ex.elemPtr(st, s, ex.c64(i)), nil)
	}
	o.Val = arr
	ns := SliceV{Obj: o.id, Off: ex.c64(0), Len: ex.c64(nl), Cap: ex.c64(nc)}
	ex.copyElems(st, ns, ex.c64(oldLen), extra, ex.c64(add))
	ex.account(st, ex.c64(mem), instr)
	return ns
}

// ---- maps

func (ex *Exec) mapFind(st *State, m MapV, k Value) int {
	if m.Obj == 0 {
		return -1
	}
	o := st.obj(m.Obj)
	for i := len(o.Entries) - 1; i >= 0; i-- {
		e := o.Entries[i]
		if e.Deleted {
			continue
		}
		c := ex.valEq(st, e.K, k)
		if ex.decide(st, c) {
			return i
		}
	}
	return -1
}

func (ex *Exec) mapLookup(st *State, m MapV, k Value) (Value, bool) {
	i := ex.mapFind(st, m, k)
	if i < 0 {
		return nil, false
	}
	return st.obj(m.Obj).Entries[i].V, true
}

func (ex *Exec) mapUpdate(st *State, m MapV, k, v Value, instr ssa.Instruction) {
	if m.Obj == 0 {
		ex.throwRuntime(st, "nilmap", "assignment to entry in nil map", instr)
	}
	i := ex.mapFind(st, m, k)
	o := st.wobj(m.Obj)
	if i >= 0 {
		o.Entries[i].V = v
		return
	}
	o.Entries = append(o.Entries, MapEntry{K: k, V: v})
	ex.account(st, ex.c64(48), instr)
}

func (ex *Exec) mapDelete(st *State, m MapV, k Value) {
	i := ex.mapFind(st, m, k)
	if i < 0 {
		return
	}
	o := st.wobj(m.Obj)
	o.Entries = append(o.Entries[:i:i], o.Entries[i+1:]...)
}

// ---- range

func (ex *Exec) rangeStart(st *State, x Value, in *ssa.Range) Value {
	o := st.newObj(ObjIter, nil, "iter")
	switch a := x.(type) {
	case MapV:
		if a.Obj != 0 {
			for _, e := range st.obj(a.Obj).Entries {
				if !e.Deleted {
					o.IterKeys = append(o.IterKeys, e.K)
					o.IterVals = append(o.IterVals, e.V)
				}
			}
			if n := len(o.IterKeys); st.mapOrderNondet && n >= 2 && n <= 3 {
				perms := [][]int{{0, 1}, {1, 0}}
				if n == 3 {
					perms = [][]int{{0, 1, 2}, {0, 2, 1}, {1, 0, 2}, {1, 2, 0}, {2, 0, 1}, {2, 1, 0}}
				}
				pm := perms[ex.chooseValue(st, "maporder", uint64(len(perms)))]
				ks, vs := make([]Value, n), make([]Value, n)
				for i, j := range pm {
					ks[i], vs[i] = o.IterKeys[j], o.IterVals[j]
				}
				o.IterKeys, o.IterVals = ks, vs
				ex.stubs["range over a map: visiting order arbitrary (one path per permutation, maps of 2..3 entries)"] = true
			}
		}
	case Str:
		if a.Sym != nil {
			for i, b := range a.Sym {
				if !b.IsConst() {
					// assume ASCII for symbolic strings: stated in harness docs
					st.assume(ex.tb.Ult(b, ex.tb.Const(0x80, 8)))
				}
				o.IterKeys = append(o.IterKeys, ex.c64(uint64(i)))
				o.IterVals = append(o.IterVals, ex.tb.ZExt(b, 32))
			}
			ex.assumes["range over symbolic string: bytes assumed ASCII (< 0x80)"] = true
		} else {
			s := a.S
			for i := 0; i < len(s); {
				r, sz := utf8.DecodeRuneInString(s[i:])
				o.IterKeys = append(o.IterKeys, ex.c64(uint64(i)))
				o.IterVals = append(o.IterVals, ex.tb.Const(uint64(uint32(r)), 32))
				i += sz
			}
		}
	default:
		panic(fmt.Sprintf("range over %T", x))
	}
	return IterV{Obj: o.id}
}

func (ex *Exec) rangeNext(st *State, it IterV, in *ssa.Next) Value {
	o := st.wobj(it.Obj)
	if o.IterPos >= len(o.IterKeys) {
		tt := in.Type().(*types.Tuple)
		var k, v Value
		if tt.At(1).Type() != types.Typ[types.Invalid] {
			k = ex.zero(tt.At(1).Type())
		}
		if tt.At(2).Type() != types.Typ[types.Invalid] {
			v = ex.zero(tt.At(2).Type())
		}
		return TupleV{ex.tb.False(), k, v}
	}
	k, v := o.IterKeys[o.IterPos], o.IterVals[o.IterPos]
	o.IterPos++
	return TupleV{ex.tb.True(), k, v}
}

// ---- goroutines (sequential approximation: run to completion at the go statement is NOT sound in general;
// paths reaching `go` are cut unless the harness enabled the scheduler)

// doGo: the spawned goroutine is never scheduled (a legal schedule; harnesses that depend on its effect emulate it
// explicitly and say so). The callee and arguments are still evaluated, as Go does at the go statement.
func (ex *Exec) doGo(st *State, f *Frame, in *ssa.Go) {
	ex.resolveCall(st, f, &in.Call, in)
	ex.stubs["go statement: spawned goroutine is not scheduled (sequential model)"] = true
	f.pc++
}

// chanRecv: sequential channel model: a receive is ready when a value is queued or the channel is closed.
func (ex *Exec) chanReady(st *State, c ChanV) (ready bool) {
	if c.Obj == 0 {
		return false // nil channel blocks forever
	}
	o := st.obj(c.Obj)
	return len(o.ChanQueue) > 0 || o.ChanClosed
}

func (ex *Exec) chanTake(st *State, c ChanV, elem types.Type) (Value, bool) {
	o := st.wobj(c.Obj)
	if len(o.ChanQueue) > 0 {
		v := o.ChanQueue[0]
		o.ChanQueue = append([]Value(nil), o.ChanQueue[1:]...)
		return v, true
	}
	return ex.zero(elem), false
}

func (ex *Exec) doSelect(st *State, f *Frame, in *ssa.Select) Value {
	// result tuple: (index int, recvOk bool, r_0 T_0, ... r_n-1 T_n-1) for receive cases
	tt := in.Type().(*types.Tuple)
	res := make(TupleV, tt.Len())
	for i := 2; i < tt.Len(); i++ {
		res[i] = ex.zero(tt.At(i).Type())
	}
	res[1] = ex.tb.False()
	recvSlot := 2
	for i, s := range in.States {
		c, _ := ex.get(f, s.Chan).(ChanV)
		if s.Dir == types.RecvOnly {
			if ex.chanReady(st, c) {
				elem := s.Chan.Type().Underlying().(*types.Chan).Elem()
				v, ok := ex.chanTake(st, c, elem)
				res[0] = ex.c64(uint64(i))
				res[1] = ex.tb.Bool(ok)
				res[recvSlot] = v
				return res
			}
			recvSlot++
		} else {
			// send: ready if the channel is open (queued)
			if c.Obj != 0 && !st.obj(c.Obj).ChanClosed {
				o := st.wobj(c.Obj)
				o.ChanQueue = append(append([]Value(nil), o.ChanQueue...), ex.get(f, s.Send))
				res[0] = ex.c64(uint64(i))
				return res
			}
		}
	}
	if !in.Blocking {
		res[0] = ex.tb.Const(^uint64(0), 64) // -1: default
		return res
	}
	panic(endPath{"select blocks forever (no goroutine can make a case ready in the sequential model)"})
}

// valueIsZero reports whether v is the zero value of its type (nil pointer / nil slice / zero scalar / nil interface ...).
func valueIsZero(v Value) bool {
	switch x := v.(type) {
	case nil:
		return true
	case *Term:
		return x.IsConst() && x.c == 0
	case Ptr:
		return x.Obj == 0
	case SliceV:
		return x.Obj == 0
	case Iface:
		return x.T == nil && x.SymNil == nil
	case MapV:
		return x.Obj == 0
	case ChanV:
		return x.Obj == 0
	case FuncV:
		return x.Fn == nil && x.Builtin == nil && x.Native == ""
	case Str:
		return x.Sym == nil && x.S == ""
	case StructV:
		for _, e := range x {
			if !valueIsZero(e) {
				return false
			}
		}
		return true
	case ArrayV:
		for _, e := range x {
			if !valueIsZero(e) {
				return false
			}
		}
		return true
	}
	return false
}

package main

import (
	"fmt"
	"go/token"
	"go/types"
	"math"

	"golang.org/x/tools/go/ssa"
)

func (ex *Exec) throwRuntime(st *State, kind, msg string, instr ssa.Instruction) {
	ex.raiseRuntime(st, kind, msg, instr)
	panic(retryStep{})
}

func (ex *Exec) c64(v uint64) *Term { return ex.tb.Const(v, 64) }

// ---- navigation inside Cells objects

func navGet(v Value, path []int) Value {
	for _, i := range path {
		switch a := v.(type) {
		case StructV:
			v = a[i]
		case ArrayV:
			v = a[i]
		default:
			panic(fmt.Sprintf("navGet: cannot index %T with %d", v, i))
		}
	}
	return v
}

func navSet(v Value, path []int, nv Value) Value {
	if len(path) == 0 {
		return nv
	}
	i := path[0]
	switch a := v.(type) {
	case StructV:
		c := make(StructV, len(a))
		copy(c, a)
		c[i] = navSet(a[i], path[1:], nv)
		return c
	case ArrayV:
		c := make(ArrayV, len(a))
		copy(c, a)
		c[i] = navSet(a[i], path[1:], nv)
		return c
	}
	panic(fmt.Sprintf("navSet: cannot index %T", v))
}

func (ex *Exec) checkNil(st *State, p Ptr, instr ssa.Instruction) {
	if p.Obj == 0 {
		ex.throwRuntime(st, "nil", "invalid memory address or nil pointer dereference", instr)
	}
}

func (ex *Exec) load(st *State, p Ptr, instr ssa.Instruction) Value {
	ex.checkNil(st, p, instr)
	o := st.obj(p.Obj)
	switch o.kind {
	case ObjSmt:
		idx := p.Sym
		if idx == nil {
			panic("load from SMT object without index")
		}
		return ex.tb.Select(o.Arr, idx)
	case ObjCells:
		v := navGet(o.Val, pathElems(p.Path))
		if p.Sym == nil {
			return v
		}
		arr, ok := v.(ArrayV)
		if !ok {
			panic("symbolic index into non-array")
		}
		return ex.symIndexLoad(st, arr, p.Sym)
	case ObjSparse:
		if p.Sym == nil || p.Path != "" {
			panic(cutPath{"pointer into an element of a sparse array"})
		}
		// the latest write to this index wins; each comparison that the path condition does not settle forks
		for i := len(o.SpWrites) - 1; i >= 0; i-- {
			w := o.SpWrites[i]
			if ex.decide(st, ex.tb.Eq(p.Sym, w.Idx)) {
				return w.V
			}
		}
		return o.SpDef
	}
	panic("load: bad object kind")
}

// symIndexLoad reads arr[idx] for symbolic idx (already bounds checked).
func (ex *Exec) symIndexLoad(st *State, arr ArrayV, idx *Term) Value {
	if idx.IsConst() {
		return arr[idx.c]
	}
	if len(arr) == 0 {
		panic(cutPath{"symbolic index into empty array"})
	}
	if _, scalar := arr[0].(*Term); scalar && len(arr) <= 4096 {
		allTerm := true
		for _, e := range arr {
			if _, ok := e.(*Term); !ok {
				allTerm = false
				break
			}
		}
		if allTerm {
			res := arr[len(arr)-1].(*Term)
			for i := len(arr) - 2; i >= 0; i-- {
				res = ex.tb.Ite(ex.tb.Eq(idx, ex.c64(uint64(i))), arr[i].(*Term), res)
			}
			return res
		}
	}
	i := ex.concretizeBelow(st, idx, uint64(len(arr)), "array index")
	if i >= uint64(len(arr)) {
		panic(cutPath{"concretised index out of range"})
	}
	return arr[i]
}

func (ex *Exec) store(st *State, p Ptr, v Value, instr ssa.Instruction) {
	ex.checkNil(st, p, instr)
	o := st.obj(p.Obj)
	if o.ReadOnly {
		panic(cutPath{"store to read-only object"})
	}
	switch o.kind {
	case ObjSmt:
		t := v.(*Term)
		if t.sort.K == KBool {
			t = ex.tb.BoolToBV(t, o.EW)
		}
		w := st.wobj(p.Obj)
		w.Arr = ex.tb.Store(w.Arr, p.Sym, t)
		return
	case ObjSparse:
		if p.Sym == nil || p.Path != "" {
			panic(cutPath{"pointer into an element of a sparse array"})
		}
		w := st.wobj(p.Obj)
		w.SpWrites = append(append([]SpWrite(nil), w.SpWrites...), SpWrite{Idx: p.Sym, V: v})
		return
	case ObjCells:
		path := pathElems(p.Path)
		if p.Sym == nil {
			w := st.wobj(p.Obj)
			w.Val = navSet(w.Val, path, v)
			return
		}
		arr := navGet(o.Val, path).(ArrayV)
		if p.Sym.IsConst() {
			w := st.wobj(p.Obj)
			w.Val = navSet(w.Val, append(path, int(p.Sym.c)), v)
			return
		}
		if t, ok := v.(*Term); ok && len(arr) <= 4096 {
			allTerm := true
			for _, e := range arr {
				if _, ok := e.(*Term); !ok {
					allTerm = false
					break
				}
			}
			if allTerm {
				na := make(ArrayV, len(arr))
				for i, e := range arr {
					na[i] = ex.tb.Ite(ex.tb.Eq(p.Sym, ex.c64(uint64(i))), t, e.(*Term))
				}
				w := st.wobj(p.Obj)
				w.Val = navSet(w.Val, path, na)
				return
			}
		}
		i := ex.concretizeBelow(st, p.Sym, uint64(len(arr)), "array index (store)")
		w := st.wobj(p.Obj)
		w.Val = navSet(w.Val, append(path, int(i)), v)
		return
	}
	panic("store: bad object kind")
}

// ---- value instructions

func (ex *Exec) evalValue(st *State, f *Frame, instr ssa.Value) Value {
	tb := ex.tb
	switch in := instr.(type) {
	case *ssa.Alloc:
		et := in.Type().(*types.Pointer).Elem()
		o := st.newObj(ObjCells, et, in.Comment)
		o.Val = ex.zero(et)
		if in.Heap {
			ex.account(st, ex.c64(uint64(sizeof(et))), in)
		}
		return Ptr{Obj: o.id}
	case *ssa.BinOp:
		return ex.binop(st, in.Op, in.X.Type(), ex.get(f, in.X), ex.get(f, in.Y), in.Y.Type(), in)
	case *ssa.UnOp:
		x := ex.get(f, in.X)
		switch in.Op {
		case token.MUL:
			p := x.(Ptr)
			if g, ok := in.X.(*ssa.Global); ok {
				ex.ensureGlobal(st, g)
			}
			v := ex.load(st, p, in)
			// a cell written as uintptr and read as a pointer (or vice versa) through an unsafe cast
			if t, isT := v.(*Term); isT {
				if _, wantPtr := in.Type().Underlying().(*types.Pointer); wantPtr {
					return ex.convert(st, t, types.Typ[types.Uintptr], types.Typ[types.UnsafePointer], in)
				}
			} else if pv, isP := v.(Ptr); isP && isInteger(in.Type()) {
				return ex.convert(st, pv, types.Typ[types.UnsafePointer], types.Typ[types.Uintptr], in)
			}
			return v
		case token.NOT:
			return tb.Not(x.(*Term))
		case token.SUB:
			t := x.(*Term)
			if isFloat(in.X.Type()) {
				return tb.Xor(t, tb.Const(uint64(1)<<uint(t.W()-1), t.W()))
			}
			return tb.Neg(t)
		case token.XOR:
			return tb.Not(x.(*Term))
		case token.ARROW:
			c, _ := x.(ChanV)
			if !ex.chanReady(st, c) {
				panic(endPath{"receive blocks forever (sequential model)"})
			}
			v, ok := ex.chanTake(st, c, in.X.Type().Underlying().(*types.Chan).Elem())
			if in.CommaOk {
				return TupleV{v, ex.tb.Bool(ok)}
			}
			return v
		}
	case *ssa.ChangeType:
		return ex.get(f, in.X)
	case *ssa.Convert:
		return ex.convert(st, ex.get(f, in.X), in.X.Type(), in.Type(), in)
	case *ssa.MultiConvert:
		return ex.convert(st, ex.get(f, in.X), in.X.Type(), in.Type(), in)
	case *ssa.ChangeInterface:
		return ex.get(f, in.X)
	case *ssa.MakeInterface:
		return Iface{T: in.X.Type(), V: ex.get(f, in.X)}
	case *ssa.MakeClosure:
		fn := in.Fn.(*ssa.Function)
		b := make([]Value, len(in.Bindings))
		for i, x := range in.Bindings {
			b[i] = ex.get(f, x)
		}
		return FuncV{Fn: fn, Bindings: b}
	case *ssa.MakeMap:
		o := st.newObj(ObjMap, in.Type(), "map")
		return MapV{Obj: o.id}
	case *ssa.MakeChan:
		o := st.newObj(ObjChan, in.Type(), "chan")
		return ChanV{Obj: o.id}
	case *ssa.MakeSlice:
		n := ex.toInt64(ex.get(f, in.Len).(*Term), in.Len.Type())
		c := ex.toInt64(ex.get(f, in.Cap).(*Term), in.Cap.Type())
		return ex.makeSlice(st, in.Type().Underlying().(*types.Slice).Elem(), n, c, in)
	case *ssa.Slice:
		return ex.sliceOp(st, f, in)
	case *ssa.FieldAddr:
		p := ex.get(f, in.X).(Ptr)
		ex.checkNil(st, p, in)
		if p.Sym != nil {
			// pointer to element with symbolic index, then a field: concretise
			i := ex.concretize(st, p.Sym, "element index for field address")
			p = Ptr{Obj: p.Obj, Path: pathAppend(p.Path, int(i))}
		}
		return Ptr{Obj: p.Obj, Path: pathAppend(p.Path, in.Field)}
	case *ssa.Field:
		return ex.get(f, in.X).(StructV)[in.Field]
	case *ssa.IndexAddr:
		return ex.indexAddr(st, f, in)
	case *ssa.Index:
		x := ex.get(f, in.X)
		idx := ex.toInt64(ex.get(f, in.Index).(*Term), in.Index.Type())
		switch a := x.(type) {
		case ArrayV:
			ex.boundsCheck(st, idx, ex.c64(uint64(len(a))), in)
			return ex.symIndexLoad(st, a, idx)
		case Str:
			return ex.strIndex(st, a, idx, in)
		}
		panic(fmt.Sprintf("Index on %T", x))
	case *ssa.Lookup:
		x := ex.get(f, in.X)
		k := ex.get(f, in.Index)
		switch m := x.(type) {
		case Str:
			idx := ex.toInt64(k.(*Term), in.Index.Type())
			return ex.strIndex(st, m, idx, in)
		case MapV:
			v, ok := ex.mapLookup(st, m, k)
			if v == nil {
				v = ex.zero(in.X.Type().Underlying().(*types.Map).Elem())
			}
			if in.CommaOk {
				return TupleV{v, tb.Bool(ok)}
			}
			return v
		}
		panic(fmt.Sprintf("Lookup on %T", x))
	case *ssa.Extract:
		return ex.get(f, in.Tuple).(TupleV)[in.Index]
	case *ssa.TypeAssert:
		return ex.typeAssert(st, f, in)
	case *ssa.Range:
		return ex.rangeStart(st, ex.get(f, in.X), in)
	case *ssa.Next:
		return ex.rangeNext(st, ex.get(f, in.Iter).(IterV), in)
	case *ssa.SliceToArrayPointer:
		s := ex.get(f, in.X).(SliceV)
		n := in.Type().(*types.Pointer).Elem().Underlying().(*types.Array).Len()
		if !ex.decide(st, tb.Uge(s.Len, ex.c64(uint64(n)))) {
			ex.throwRuntime(st, "slice", "cannot convert slice to array pointer: length too short", in)
		}
		if s.Obj == 0 {
			return Ptr{}
		}
		return ex.arrayPtrFromSlice(st, s, int(n))
	case *ssa.Phi:
		panic("phi outside block head")
	}
	panic(fmt.Sprintf("evalValue: unhandled %T: %s", instr, instr))
}

func (ex *Exec) arrayPtrFromSlice(st *State, s SliceV, n int) Value {
	o := st.obj(s.Obj)
	if o.kind != ObjCells {
		// pointer to an array view inside an SMT buffer: the element index is carried symbolically
		return Ptr{Obj: s.Obj, Sym: s.Off}
	}
	off := ex.concretize(st, s.Off, "slice-to-array offset")
	arr := navGet(o.Val, pathElems(s.Path)).(ArrayV)
	if off == 0 && len(arr) == n {
		return Ptr{Obj: s.Obj, Path: s.Path}
	}
	panic(cutPath{"slice-to-array-pointer into the middle of an array"})
}

// toInt64 widens an integer term to 64 bits according to its Go type.
func (ex *Exec) toInt64(t *Term, typ types.Type) *Term {
	if t.W() == 64 {
		return t
	}
	if isUnsigned(typ) {
		return ex.tb.ZExt(t, 64)
	}
	return ex.tb.SExt(t, 64)
}

// boundsCheck: 0 <= idx < n as unsigned comparison on BV64 (idx is int, n <= 2^63).
func (ex *Exec) boundsCheck(st *State, idx, n *Term, instr ssa.Instruction) {
	if !ex.decide(st, ex.tb.Ult(idx, n)) {
		ex.throwRuntime(st, "index", "index out of range", instr)
	}
}

func (ex *Exec) indexAddr(st *State, f *Frame, in *ssa.IndexAddr) Value {
	x := ex.get(f, in.X)
	idx := ex.toInt64(ex.get(f, in.Index).(*Term), in.Index.Type())
	switch a := x.(type) {
	case Ptr: // *array
		ex.checkNil(st, a, in)
		n := in.X.Type().Underlying().(*types.Pointer).Elem().Underlying().(*types.Array).Len()
		ex.boundsCheck(st, idx, ex.c64(uint64(n)), in)
		if st.obj(a.Obj).kind == ObjSmt {
			return Ptr{Obj: a.Obj, Sym: ex.tb.Add(a.Sym, idx)}
		}
		if a.Sym != nil {
			i := ex.concretize(st, a.Sym, "nested array index")
			a = Ptr{Obj: a.Obj, Path: pathAppend(a.Path, int(i))}
		}
		if idx.IsConst() {
			return Ptr{Obj: a.Obj, Path: pathAppend(a.Path, int(idx.c))}
		}
		return Ptr{Obj: a.Obj, Path: a.Path, Sym: idx}
	case SliceV:
		ex.boundsCheck(st, idx, a.Len, in)
		if a.Obj == 0 {
			panic("index into nil slice passed bounds check")
		}
		e := ex.tb.Add(a.Off, idx)
		o := st.obj(a.Obj)
		if o.kind == ObjSmt || o.kind == ObjSparse {
			return Ptr{Obj: a.Obj, Sym: e}
		}
		if e.IsConst() {
			return Ptr{Obj: a.Obj, Path: pathAppend(a.Path, int(e.c))}
		}
		return Ptr{Obj: a.Obj, Path: a.Path, Sym: e}
	}
	panic(fmt.Sprintf("IndexAddr on %T", x))
}

func (ex *Exec) makeSlice(st *State, elem types.Type, n, c *Term, instr ssa.Instruction) Value {
	tb := ex.tb
	// Go: panics if len < 0, cap < len or too large
	if !ex.decide(st, tb.AndN(tb.Sge(n, ex.c64(0)), tb.Sge(c, n))) {
		ex.throwRuntime(st, "makeslice", "makeslice: len or cap out of range", instr)
	}
	esz := uint64(sizeof(elem))
	if esz == 0 {
		esz = 1
	}
	// absurd sizes panic in Go as well (> maxAlloc = 2^47)
	maxElems := (uint64(1) << 47) / esz
	if !ex.decide(st, tb.Ule(c, ex.c64(maxElems))) {
		ex.throwRuntime(st, "makeslice", "makeslice: cap out of range", instr)
	}
	w := scalarWidth(elem)
	if w != 0 && !c.IsConst() || (w != 0 && c.IsConst() && c.c > 1024) {
		ex.account(st, tb.Mul(c, ex.c64(esz)), instr)
		o := st.newObj(ObjSmt, elem, "make")
		o.Arr = tb.ConstArr(tb.Const(0, w))
		o.Init = o.Arr
		o.ALen = c
		o.EW = w
		return SliceV{Obj: o.id, Off: ex.c64(0), Len: n, Cap: c}
	}
	ex.account(st, tb.Mul(c, ex.c64(esz)), instr)
	if !c.IsConst() || c.c > 1<<16 {
		// non-scalar elements, symbolic or very large size: a sparse array (all elements zero until written)
		o := st.newObj(ObjSparse, elem, "make")
		o.ALen = c
		o.SpDef = ex.zero(elem)
		return SliceV{Obj: o.id, Off: ex.c64(0), Len: n, Cap: c}
	}
	cc := ex.concretize(st, c, "make capacity")
	if cc > 1<<20 {
		panic(cutPath{"make of more than 2^20 non-scalar elements"})
	}
	o := st.newObj(ObjCells, types.NewArray(elem, int64(cc)), "make")
	arr := make(ArrayV, cc)
	if cc > 0 {
		z := ex.zero(elem)
		for i := range arr {
			arr[i] = z
		}
	}
	o.Val = arr
	return SliceV{Obj: o.id, Off: ex.c64(0), Len: n, Cap: ex.c64(cc)}
}

// account adds to the allocation counter and checks the budget, if one is set.
func (ex *Exec) account(st *State, bytes *Term, instr ssa.Instruction) {
	tb := ex.tb
	if st.acctDone {
		return
	}
	st.acctDone = true
	if st.budget != nil {
		// no overflow and within budget
		sum := tb.Add(st.alloc, bytes)
		ok := tb.AndN(tb.Uge(sum, st.alloc), tb.Ule(sum, st.budget))
		if !ok.IsTrue() {
			bad := tb.Not(ok)
			if ex.feasible(st, bad) {
				ex.recordViolation(st, "alloc", ex.sitePos(st, instr), "allocation exceeds the stated budget", bad)
				if !ex.feasible(st, ok) {
					panic(endPath{"alloc budget always exceeded"})
				}
				st.assume(ok)
			}
		}
	}
	st.alloc = tb.Add(st.alloc, bytes)
}

func (ex *Exec) sliceOp(st *State, f *Frame, in *ssa.Slice) Value {
	tb := ex.tb
	x := ex.get(f, in.X)
	var lo, hi, max *Term
	if in.Low != nil {
		lo = ex.toInt64(ex.get(f, in.Low).(*Term), in.Low.Type())
	}
	if in.High != nil {
		hi = ex.toInt64(ex.get(f, in.High).(*Term), in.High.Type())
	}
	if in.Max != nil {
		max = ex.toInt64(ex.get(f, in.Max).(*Term), in.Max.Type())
	}
	if lo == nil {
		lo = ex.c64(0)
	}
	switch a := x.(type) {
	case Str:
		n := uint64(len(a.S))
		if a.Sym != nil {
			n = uint64(len(a.Sym))
		}
		if hi == nil {
			hi = ex.c64(n)
		}
		if !ex.decide(st, tb.AndN(tb.Ule(hi, ex.c64(n)), tb.Ule(lo, hi))) {
			ex.throwRuntime(st, "slice", "slice bounds out of range (string)", in)
		}
		l := ex.concretize(st, lo, "string slice low")
		h := ex.concretize(st, hi, "string slice high")
		if a.Sym != nil {
			return Str{Sym: a.Sym[l:h:h]}
		}
		return Str{S: a.S[l:h]}
	case SliceV:
		if hi == nil {
			hi = a.Len
		}
		cp := a.Cap
		if max == nil {
			max = cp
		}
		// 0 <= lo <= hi <= max <= cap
		if !ex.decide(st, tb.AndN(tb.Ule(max, cp), tb.Ule(hi, max), tb.Ule(lo, hi))) {
			ex.throwRuntime(st, "slice", "slice bounds out of range", in)
		}
		if a.Obj == 0 {
			return a
		}
		return SliceV{Obj: a.Obj, Path: a.Path, Off: tb.Add(a.Off, lo), Len: tb.Sub(hi, lo), Cap: tb.Sub(max, lo)}
	case Ptr: // *array
		ex.checkNil(st, a, in)
		n := uint64(in.X.Type().Underlying().(*types.Pointer).Elem().Underlying().(*types.Array).Len())
		if hi == nil {
			hi = ex.c64(n)
		}
		if max == nil {
			max = ex.c64(n)
		}
		if !ex.decide(st, tb.AndN(tb.Ule(max, ex.c64(n)), tb.Ule(hi, max), tb.Ule(lo, hi))) {
			ex.throwRuntime(st, "slice", "slice bounds out of range (array)", in)
		}
		if st.obj(a.Obj).kind == ObjSmt {
			return SliceV{Obj: a.Obj, Off: tb.Add(a.Sym, lo), Len: tb.Sub(hi, lo), Cap: tb.Sub(max, lo)}
		}
		if a.Sym != nil {
			i := ex.concretize(st, a.Sym, "array element index")
			a = Ptr{Obj: a.Obj, Path: pathAppend(a.Path, int(i))}
		}
		return SliceV{Obj: a.Obj, Path: a.Path, Off: lo, Len: tb.Sub(hi, lo), Cap: tb.Sub(max, lo)}
	}
	panic(fmt.Sprintf("Slice on %T", x))
}

func (ex *Exec) strBytes(s Str) []*Term {
	if s.Sym != nil {
		return s.Sym
	}
	out := make([]*Term, len(s.S))
	for i := 0; i < len(s.S); i++ {
		out[i] = ex.tb.Const(uint64(s.S[i]), 8)
	}
	return out
}

func strLen(s Str) int {
	if s.Sym != nil {
		return len(s.Sym)
	}
	return len(s.S)
}

func (ex *Exec) mkStr(b []*Term) Str {
	conc := true
	for _, t := range b {
		if !t.IsConst() {
			conc = false
			break
		}
	}
	if conc {
		bs := make([]byte, len(b))
		for i, t := range b {
			bs[i] = byte(t.c)
		}
		return Str{S: string(bs)}
	}
	if len(b) == 0 {
		return Str{}
	}
	return Str{Sym: b}
}

func (ex *Exec) strIndex(st *State, s Str, idx *Term, instr ssa.Instruction) Value {
	n := strLen(s)
	ex.boundsCheck(st, idx, ex.c64(uint64(n)), instr)
	if idx.IsConst() {
		if s.Sym != nil {
			return s.Sym[idx.c]
		}
		return ex.tb.Const(uint64(s.S[idx.c]), 8)
	}
	b := ex.strBytes(s)
	res := b[n-1]
	for i := n - 2; i >= 0; i-- {
		res = ex.tb.Ite(ex.tb.Eq(idx, ex.c64(uint64(i))), b[i], res)
	}
	return res
}

// ---- type assertions

func (ex *Exec) implements(dyn types.Type, iface *types.Interface) bool {
	return types.Implements(dyn, iface)
}

func (ex *Exec) typeAssert(st *State, f *Frame, in *ssa.TypeAssert) Value {
	x, ok := ex.get(f, in.X).(Iface)
	if !ok {
		panic(cutPath{"type assertion on opaque value"})
	}
	var okay bool
	var res Value
	if it, isIface := in.AssertedType.Underlying().(*types.Interface); isIface {
		okay = x.T != nil && (x.T == runtimeErrorType && isErrorLike(it) || x.T != runtimeErrorType && ex.implements(x.T, it))
		res = x
	} else {
		okay = x.T != nil && types.Identical(x.T, in.AssertedType)
		if okay {
			res = x.V
		}
	}
	if in.CommaOk {
		if !okay {
			res = ex.zero(in.AssertedType)
		}
		return TupleV{res, ex.tb.Bool(okay)}
	}
	if !okay {
		ex.throwRuntime(st, "assert", fmt.Sprintf("interface conversion: %v is not %v", x.T, in.AssertedType), in)
	}
	return res
}

func isErrorLike(it *types.Interface) bool {
	// runtime.Error / error / interface{} / fmt.Stringer-less interfaces with Error() or RuntimeError()
	for i := 0; i < it.NumMethods(); i++ {
		n := it.Method(i).Name()
		if n != "Error" && n != "RuntimeError" {
			return false
		}
	}
	return true
}

// ---- conversions

func (ex *Exec) convert(st *State, x Value, from, to types.Type, instr ssa.Instruction) Value {
	tb := ex.tb
	uf, ut := under(from), under(to)
	// pointers / unsafe.Pointer / uintptr
	if _, ok := ut.(*types.Pointer); ok {
		return x
	}
	if b, ok := ut.(*types.Basic); ok && b.Kind() == types.UnsafePointer {
		if t, isT := x.(*Term); isT {
			// uintptr -> pointer: only addresses handed out by the pointer -> uintptr conversion below
			a := ex.concretize(st, t, "uintptr to pointer")
			if a == 0 {
				return Ptr{}
			}
			if p, ok := ex.addrToPtr[a]; ok {
				return p
			}
			return Opaque{"uintptr->unsafe.Pointer of an unknown address"}
		}
		return x
	}
	if bf, ok := uf.(*types.Basic); ok && bf.Kind() == types.UnsafePointer {
		if bt, ok := ut.(*types.Basic); ok && bt.Kind() == types.Uintptr {
			// address as integer: a concrete fake address, unique and stable per (object, path)
			p, _ := x.(Ptr)
			if p.Obj == 0 {
				return tb.Const(0, 64)
			}
			if p.Sym != nil {
				i := ex.concretize(st, p.Sym, "address of element")
				p = Ptr{Obj: p.Obj, Path: pathAppend(p.Path, int(i))}
			}
			if ex.addrOf == nil {
				ex.addrOf = map[Ptr]uint64{}
				ex.addrToPtr = map[uint64]Ptr{}
			}
			a, ok := ex.addrOf[p]
			if !ok {
				a = 0xc000000000 + uint64(len(ex.addrOf)+1)*0x1000
				ex.addrOf[p] = a
				ex.addrToPtr[a] = p
			}
			return tb.Const(a, 64)
		}
		return x
	}
	if isString(to) {
		switch v := x.(type) {
		case Str:
			return v
		case SliceV: // []byte or []rune -> string
			el := uf.(*types.Slice).Elem()
			if scalarWidth(el) != 8 {
				panic(cutPath{"[]rune -> string"})
			}
			b := ex.sliceBytes(st, v, "string([]byte)")
			return ex.mkStr(b)
		case *Term: // string(rune)
			if v.IsConst() {
				return Str{S: string(rune(v.c))}
			}
			panic(cutPath{"string(symbolic rune)"})
		}
	}
	if sl, ok := ut.(*types.Slice); ok {
		if s, isStr := x.(Str); isStr {
			if scalarWidth(sl.Elem()) != 8 {
				panic(cutPath{"string -> []rune"})
			}
			b := ex.strBytes(s)
			o := st.newObj(ObjCells, types.NewArray(sl.Elem(), int64(len(b))), "[]byte(string)")
			arr := make(ArrayV, len(b))
			for i := range b {
				arr[i] = b[i]
			}
			o.Val = arr
			ex.account(st, ex.c64(uint64(len(b))), instr)
			n := ex.c64(uint64(len(b)))
			return SliceV{Obj: o.id, Off: ex.c64(0), Len: n, Cap: n}
		}
		return x
	}
	t, ok := x.(*Term)
	if !ok {
		return x
	}
	switch {
	case isInteger(from) && isInteger(to):
		return tb.Resize(t, scalarWidth(to), !isUnsigned(from))
	case isInteger(from) && isFloat(to):
		return ex.fpFromInt(t, !isUnsigned(from), scalarWidth(to))
	case isFloat(from) && isInteger(to):
		return ex.fpToInt(t, scalarWidth(from), scalarWidth(to), !isUnsigned(to))
	case isFloat(from) && isFloat(to):
		return ex.fpToFp(t, scalarWidth(from), scalarWidth(to))
	case isBoolean(from) && isBoolean(to):
		return t
	}
	panic(fmt.Sprintf("convert: %s -> %s unhandled", from, to))
}

// sliceBytes materialises the elements of a byte slice (length concretised).
func (ex *Exec) sliceBytes(st *State, s SliceV, what string) []*Term {
	n := ex.concretize(st, s.Len, what+" length")
	if n > 1<<16 {
		panic(cutPath{what + ": more than 65536 bytes"})
	}
	out := make([]*Term, n)
	if n == 0 {
		return out
	}
	o := st.obj(s.Obj)
	for i := uint64(0); i < n; i++ {
		idx := ex.tb.Add(s.Off, ex.c64(i))
		if o.kind == ObjSmt {
			out[i] = ex.tb.Select(o.Arr, idx)
		} else {
			arr := navGet(o.Val, pathElems(s.Path)).(ArrayV)
			out[i] = ex.symIndexLoad(st, arr, idx).(*Term)
		}
	}
	return out
}

// ---- binary operators

func (ex *Exec) binop(st *State, op token.Token, xt types.Type, x, y Value, yt types.Type, instr ssa.Instruction) Value {
	tb := ex.tb
	switch a := x.(type) {
	case *Term:
		b, ok := y.(*Term)
		if !ok {
			break
		}
		if isFloat(xt) {
			return ex.fpBinop(op, a, b)
		}
		if a.sort.K == KBool {
			switch op {
			case token.EQL:
				return tb.Eq(a, b)
			case token.NEQ:
				return tb.Ne(a, b)
			case token.AND:
				return tb.And(a, b)
			case token.OR:
				return tb.Or(a, b)
			}
			panic("bool binop " + op.String())
		}
		signed := !isUnsigned(xt)
		switch op {
		case token.ADD:
			return tb.Add(a, b)
		case token.SUB:
			return tb.Sub(a, b)
		case token.MUL:
			return tb.Mul(a, b)
		case token.QUO, token.REM:
			if !ex.decide(st, tb.Ne(b, tb.Const(0, b.W()))) {
				ex.throwRuntime(st, "divide", "integer divide by zero", instr)
			}
			if op == token.QUO {
				if signed {
					return tb.SDiv(a, b)
				}
				return tb.UDiv(a, b)
			}
			if signed {
				return tb.SRem(a, b)
			}
			return tb.URem(a, b)
		case token.AND:
			return tb.And(a, b)
		case token.OR:
			return tb.Or(a, b)
		case token.XOR:
			return tb.Xor(a, b)
		case token.AND_NOT:
			return tb.And(a, tb.Not(b))
		case token.SHL, token.SHR:
			if !isUnsigned(yt) {
				if !ex.decide(st, tb.Sge(b, tb.Const(0, b.W()))) {
					ex.throwRuntime(st, "shift", "negative shift amount", instr)
				}
			}
			w := a.W()
			var cnt *Term
			var big *Term // count >= w
			if b.W() > w {
				big = tb.Uge(b, tb.Const(uint64(w), b.W()))
				cnt = tb.Extract(b, w-1, 0)
			} else {
				big = tb.False()
				cnt = tb.ZExt(b, w)
			}
			var r, over *Term
			switch {
			case op == token.SHL:
				r, over = tb.Shl(a, cnt), tb.Const(0, w)
			case signed:
				r, over = tb.AShr(a, cnt), tb.AShr(a, tb.Const(uint64(w-1), w))
			default:
				r, over = tb.LShr(a, cnt), tb.Const(0, w)
			}
			return tb.Ite(big, over, r)
		case token.EQL:
			return tb.Eq(a, b)
		case token.NEQ:
			return tb.Ne(a, b)
		case token.LSS:
			if signed {
				return tb.Slt(a, b)
			}
			return tb.Ult(a, b)
		case token.LEQ:
			if signed {
				return tb.Sle(a, b)
			}
			return tb.Ule(a, b)
		case token.GTR:
			if signed {
				return tb.Slt(b, a)
			}
			return tb.Ult(b, a)
		case token.GEQ:
			if signed {
				return tb.Sle(b, a)
			}
			return tb.Ule(b, a)
		}
		panic("int binop " + op.String())
	case Str:
		b := y.(Str)
		switch op {
		case token.ADD:
			if a.Sym == nil && b.Sym == nil {
				return Str{S: a.S + b.S}
			}
			return ex.mkStr(append(append([]*Term(nil), ex.strBytes(a)...), ex.strBytes(b)...))
		case token.EQL:
			return ex.valEq(st, a, b)
		case token.NEQ:
			return tb.Not(ex.valEq(st, a, b))
		case token.LSS, token.LEQ, token.GTR, token.GEQ:
			if a.Sym == nil && b.Sym == nil {
				switch op {
				case token.LSS:
					return tb.Bool(a.S < b.S)
				case token.LEQ:
					return tb.Bool(a.S <= b.S)
				case token.GTR:
					return tb.Bool(a.S > b.S)
				default:
					return tb.Bool(a.S >= b.S)
				}
			}
			lt := ex.strLess(a, b)
			switch op {
			case token.LSS:
				return lt
			case token.GEQ:
				return tb.Not(lt)
			case token.GTR:
				return ex.strLess(b, a)
			default:
				return tb.Not(ex.strLess(b, a))
			}
		}
	}
	switch op {
	case token.EQL:
		return ex.valEq(st, x, y)
	case token.NEQ:
		return tb.Not(ex.valEq(st, x, y))
	}
	panic(fmt.Sprintf("binop %s on %T, %T", op, x, y))
}

func (ex *Exec) strLess(a, b Str) *Term {
	tb := ex.tb
	ab, bb := ex.strBytes(a), ex.strBytes(b)
	n := len(ab)
	if len(bb) < n {
		n = len(bb)
	}
	// result for equal common prefix
	res := tb.Bool(len(ab) < len(bb))
	for i := n - 1; i >= 0; i-- {
		res = tb.Ite(tb.Eq(ab[i], bb[i]), res, tb.Ult(ab[i], bb[i]))
	}
	return res
}

// valEq builds the condition that two values are equal (Go ==).
func (ex *Exec) valEq(st *State, x, y Value) *Term {
	tb := ex.tb
	switch a := x.(type) {
	case *Term:
		if b, ok := y.(*Term); ok {
			return tb.Eq(a, b)
		}
	case Str:
		b, ok := y.(Str)
		if !ok {
			break
		}
		if a.Sym == nil && b.Sym == nil {
			return tb.Bool(a.S == b.S)
		}
		if strLen(a) != strLen(b) {
			return tb.False()
		}
		ab, bb := ex.strBytes(a), ex.strBytes(b)
		r := tb.True()
		for i := range ab {
			r = tb.And(r, tb.Eq(ab[i], bb[i]))
		}
		return r
	case Ptr:
		if b, ok := y.(Ptr); ok {
			if a.Obj != b.Obj || a.Path != b.Path {
				return tb.False()
			}
			if a.Sym == nil && b.Sym == nil {
				return tb.True()
			}
			if a.Sym != nil && b.Sym != nil {
				return tb.Eq(a.Sym, b.Sym)
			}
			return tb.False()
		}
	case MapV:
		if b, ok := y.(MapV); ok {
			return tb.Bool(a.Obj == b.Obj)
		}
	case ChanV:
		if b, ok := y.(ChanV); ok {
			return tb.Bool(a.Obj == b.Obj)
		}
	case SliceV: // only comparable to nil
		if b, ok := y.(SliceV); ok {
			return tb.Bool(a.Obj == 0 && b.Obj == 0 || a.Obj == b.Obj && b.Obj == 0)
		}
	case FuncV:
		if b, ok := y.(FuncV); ok {
			an := a.Fn == nil && a.Builtin == nil && a.Native == ""
			bn := b.Fn == nil && b.Builtin == nil && b.Native == ""
			if an || bn {
				return tb.Bool(an && bn)
			}
			return tb.Bool(a.Fn == b.Fn)
		}
	case Iface:
		b, ok := y.(Iface)
		if !ok {
			break
		}
		if a.SymNil != nil && b.T == nil && b.SymNil == nil {
			return a.SymNil
		}
		if b.SymNil != nil && a.T == nil && a.SymNil == nil {
			return b.SymNil
		}
		if a.T == nil || b.T == nil {
			return tb.Bool(a.T == nil && b.T == nil)
		}
		if !types.Identical(a.T, b.T) {
			return tb.False()
		}
		return ex.valEq(st, a.V, b.V)
	case StructV:
		b := y.(StructV)
		r := tb.True()
		for i := range a {
			r = tb.And(r, ex.valEq(st, a[i], b[i]))
		}
		return r
	case ArrayV:
		b := y.(ArrayV)
		r := tb.True()
		for i := range a {
			r = tb.And(r, ex.valEq(st, a[i], b[i]))
		}
		return r
	case nil:
		return tb.Bool(y == nil)
	case Opaque:
		panic(cutPath{"comparison of opaque value: " + a.Why})
	}
	if o, ok := y.(Opaque); ok {
		panic(cutPath{"comparison of opaque value: " + o.Why})
	}
	panic(fmt.Sprintf("valEq on %T, %T", x, y))
}

// ---- floating point (values are IEEE bit patterns)

func fpSort(w int) string {
	if w == 32 {
		return "(_ to_fp 8 24)"
	}
	return "(_ to_fp 11 53)"
}

func (ex *Exec) fpOf(t *Term) string { return "(" + fpSort(t.W()) + " %0)" }

func isNaNBits(v uint64, w int) bool {
	if w == 32 {
		f := math.Float32frombits(uint32(v))
		return f != f
	}
	f := math.Float64frombits(v)
	return f != f
}

// fpResult is the IEEE encoding of the FP expression expr (SMT-LIB text over %i): a direct function of the
// operands (fp.to_ieee_bv) when the value is not a NaN, and an unconstrained quiet NaN when it is (payload
// propagation is not part of Go's or WebAssembly's contract; IEEE 754-2008 hardware delivers quiet NaNs).
func (ex *Exec) fpResult(expr string, w int, args ...*Term) *Term {
	tb := ex.tb
	val := tb.Raw("(fp.to_ieee_bv "+expr+")", BV(w), args...)
	isNaN := tb.Raw("(fp.isNaN "+expr+")", BoolSort, args...)
	name := fmt.Sprintf("fpnan!%d", val.id)
	nan, ok := tb.vars[name]
	if !ok {
		nan = tb.Var(name, BV(w))
		var m uint64 = 0x7fc00000
		if w == 64 {
			m = 0x7ff8000000000000
		}
		tb.AddAxiom(nan, tb.Eq(tb.And(nan, tb.Const(m, w)), tb.Const(m, w)))
	}
	return tb.Ite(isNaN, nan, val)
}

func (ex *Exec) fpBinop(op token.Token, a, b *Term) Value {
	tb := ex.tb
	w := a.W()
	fa, fb := "("+fpSort(w)+" %0)", "("+fpSort(w)+" %1)"
	if a.IsConst() && b.IsConst() {
		if w == 64 {
			x, y := math.Float64frombits(a.c), math.Float64frombits(b.c)
			switch op {
			case token.ADD:
				return ex.fconst(x+y, w)
			case token.SUB:
				return ex.fconst(x-y, w)
			case token.MUL:
				return ex.fconst(x*y, w)
			case token.QUO:
				return ex.fconst(x/y, w)
			case token.EQL:
				return tb.Bool(x == y)
			case token.NEQ:
				return tb.Bool(x != y)
			case token.LSS:
				return tb.Bool(x < y)
			case token.LEQ:
				return tb.Bool(x <= y)
			case token.GTR:
				return tb.Bool(x > y)
			case token.GEQ:
				return tb.Bool(x >= y)
			}
		} else {
			x, y := math.Float32frombits(uint32(a.c)), math.Float32frombits(uint32(b.c))
			switch op {
			case token.ADD:
				return ex.fconst(float64(x+y), w)
			case token.SUB:
				return ex.fconst(float64(x-y), w)
			case token.MUL:
				return ex.fconst(float64(x*y), w)
			case token.QUO:
				return ex.fconst(float64(x/y), w)
			case token.EQL:
				return tb.Bool(x == y)
			case token.NEQ:
				return tb.Bool(x != y)
			case token.LSS:
				return tb.Bool(x < y)
			case token.LEQ:
				return tb.Bool(x <= y)
			case token.GTR:
				return tb.Bool(x > y)
			case token.GEQ:
				return tb.Bool(x >= y)
			}
		}
	}
	if (op == token.ADD || op == token.MUL) && a.id > b.id {
		a, b = b, a // commutative in value; NaN payloads are unconstrained anyway
	}
	switch op {
	case token.ADD:
		return ex.fpResult("(fp.add RNE "+fa+" "+fb+")", w, a, b)
	case token.SUB:
		return ex.fpResult("(fp.sub RNE "+fa+" "+fb+")", w, a, b)
	case token.MUL:
		return ex.fpResult("(fp.mul RNE "+fa+" "+fb+")", w, a, b)
	case token.QUO:
		return ex.fpResult("(fp.div RNE "+fa+" "+fb+")", w, a, b)
	case token.EQL:
		return tb.Raw("(fp.eq "+fa+" "+fb+")", BoolSort, a, b)
	case token.NEQ:
		return tb.Not(tb.Raw("(fp.eq "+fa+" "+fb+")", BoolSort, a, b))
	case token.LSS:
		return tb.Raw("(fp.lt "+fa+" "+fb+")", BoolSort, a, b)
	case token.LEQ:
		return tb.Raw("(fp.leq "+fa+" "+fb+")", BoolSort, a, b)
	case token.GTR:
		return tb.Raw("(fp.gt "+fa+" "+fb+")", BoolSort, a, b)
	case token.GEQ:
		return tb.Raw("(fp.geq "+fa+" "+fb+")", BoolSort, a, b)
	}
	panic("float binop " + op.String())
}

func (ex *Exec) fconst(f float64, w int) *Term {
	if w == 32 {
		return ex.tb.Const(uint64(math.Float32bits(float32(f))), 32)
	}
	return ex.tb.Const(math.Float64bits(f), 64)
}

func (ex *Exec) fpFromInt(t *Term, signed bool, w int) *Term {
	if t.IsConst() {
		if signed {
			v := float64(sext64(t.c, t.W()))
			if w == 32 {
				return ex.fconst(float64(float32(sext64(t.c, t.W()))), 32)
			}
			return ex.fconst(v, 64)
		}
		if w == 32 {
			return ex.fconst(float64(float32(t.c)), 32)
		}
		return ex.fconst(float64(t.c), 64)
	}
	conv := fpSort(w)
	if !signed {
		conv = "(_ to_fp_unsigned " + conv[len("(_ to_fp "):]
	}
	return ex.fpResult("("+conv+" RNE %0)", w, t)
}

func (ex *Exec) fpToInt(t *Term, fw, iw int, signed bool) *Term {
	tb := ex.tb
	if t.IsConst() {
		var f float64
		if fw == 32 {
			f = float64(math.Float32frombits(uint32(t.c)))
		} else {
			f = math.Float64frombits(t.c)
		}
		if f == f {
			if signed && f > -9.3e18 && f < 9.2e18 {
				return tb.Const(uint64(int64(f)), iw)
			}
			if !signed && f >= 0 && f < 1.8e19 {
				return tb.Const(uint64(f), iw)
			}
		}
	}
	// in range: exact truncation; out of range / NaN: unspecified (fresh)
	op := "fp.to_sbv"
	if !signed {
		op = "fp.to_ubv"
	}
	fa := "(" + fpSort(fw) + " %0)"
	// z3 leaves out-of-range results unspecified, which is exactly Go's contract ("implementation specific")
	return tb.Raw(fmt.Sprintf("((_ %s %d) RTZ %s)", op, iw, fa), BV(iw), t)
}

func (ex *Exec) fpToFp(t *Term, fw, tw int) *Term {
	tb := ex.tb
	if fw == tw {
		return t
	}
	if t.IsConst() {
		if fw == 32 {
			f := math.Float32frombits(uint32(t.c))
			if f == f {
				return ex.fconst(float64(f), 64)
			}
		} else {
			f := math.Float64frombits(t.c)
			if f == f {
				return ex.fconst(float64(float32(f)), 32)
			}
		}
	}
	fa := "(" + fpSort(fw) + " %0)"
	expr := "(" + fpSort(tw) + " RNE " + fa + ")"
	val := tb.Raw("(fp.to_ieee_bv "+expr+")", BV(tw), t)
	isNaN := tb.Raw("(fp.isNaN "+fa+")", BoolSort, t)
	// NaN operands: amd64 CVTSS2SD / CVTSD2SS keep the sign, move the payload to the top of the new
	// significand (dropping low bits when narrowing) and set the quiet bit.
	var nan *Term
	if fw == 32 {
		sign := tb.Extract(t, 31, 31)
		mant := tb.Extract(t, 22, 0)
		nan = tb.Concat(tb.Concat(sign, tb.Const(0x7ff, 11)), tb.Concat(mant, tb.Const(0, 29)))
		nan = tb.Or(nan, tb.Const(1<<51, 64))
	} else {
		sign := tb.Extract(t, 63, 63)
		mant := tb.Extract(t, 51, 29)
		nan = tb.Concat(tb.Concat(sign, tb.Const(0xff, 8)), mant)
		nan = tb.Or(nan, tb.Const(1<<22, 32))
	}
	return tb.Ite(isNaN, nan, val)
}

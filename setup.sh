#!/bin/sh
# Build the framework from files on disk only (offline).
set -e
cd "$(dirname "$0")"
export GOFLAGS=-mod=mod GOPROXY=off GOSUMDB=off GOTOOLCHAIN=local CGO_ENABLED=0
mkdir -p bin evidence replay
(cd gosym && go build -o ../bin/gosym .)
echo "setup ok"

//go:build verif

package wazero

import (
	"context"

	"github.com/tetratelabs/wazero/api"
	"github.com/tetratelabs/wazero/internal/verifrt"
	"github.com/tetratelabs/wazero/sys"
)

// (module (import "env" "exit" (func)) (func (export "_start") call 0))
var verifStartCallsExit = []byte{0x00, 0x61, 0x73, 0x6d, 0x01, 0x00, 0x00, 0x00,
	0x01, 0x04, 0x01, 0x60, 0x00, 0x00,
	0x02, 0x0c, 0x01, 0x03, 'e', 'n', 'v', 0x04, 'e', 'x', 'i', 't', 0x00, 0x00,
	0x03, 0x02, 0x01, 0x00,
	0x07, 0x0a, 0x01, 0x06, '_', 's', 't', 'a', 'r', 't', 0x00, 0x01,
	0x0a, 0x06, 0x01, 0x04, 0x00, 0x10, 0x00, 0x0b}

// VerifC06_StartFunctionExit: a start function (_start) that ends in an exit raised by a host function - by a panic with
// an exit error only, or by closing the calling module first (what proc_exit does) - for EVERY exit code: the caller of
// Runtime.InstantiateModule gets the exit error carrying that code (none for code 0), the half-started instance is closed and
// not left behind (its name is free, a lookup does not find it), a bystander instance still works, and the very same
// instantiation can be repeated with the very same outcome.
func VerifC06_StartFunctionExit() {
	ctx := context.Background()
	code := verifrt.U32("code")
	closeFirst := verifrt.Choose("closeCallerFirst", 2) == 1
	r := NewRuntimeWithConfig(ctx, NewRuntimeConfigInterpreter())
	_, err := r.NewHostModuleBuilder("env").NewFunctionBuilder().
		WithGoModuleFunction(api.GoModuleFunc(func(ctx context.Context, mod api.Module, stack []uint64) {
			if closeFirst {
				_ = mod.CloseWithExitCode(ctx, code)
			}
			panic(sys.NewExitError(code))
		}), nil, nil).Export("exit").Instantiate(ctx)
	verifrt.Assert(err == nil, "host module instantiates")
	if err != nil {
		return
	}
	other, err := r.InstantiateWithConfig(ctx, verifTinyWasm, NewModuleConfig().WithName("other"))
	verifrt.Assert(err == nil && other != nil, "bystander instantiates")
	compiled, err := r.CompileModule(ctx, verifStartCallsExit)
	verifrt.Assert(err == nil, "module compiles")
	if err != nil || other == nil {
		return
	}
	for round := 0; round < 2; round++ {
		mod, err := r.InstantiateModule(ctx, compiled, NewModuleConfig().WithName("app"))
		if code == 0 {
			verifrt.Assert(err == nil, "exit code 0 in a start function is not an error")
		} else {
			se, ok := err.(*sys.ExitError)
			verifrt.Assert(ok && se != nil && se.ExitCode() == code, "the caller receives the exit error carrying the exit code")
		}
		if mod != nil {
			verifrt.Assert(mod.IsClosed(), "the instance whose start function exited is closed")
		}
		verifrt.Assert(r.Module("app") == nil, "the instance whose start function exited is not left registered in the runtime")
		verifrt.Assert(r.Module("other") != nil && !other.IsClosed(), "bystander instance stays open and registered")
		_, err = other.ExportedFunction("f").Call(ctx)
		verifrt.Assert(err == nil, "bystander instance keeps working")
	}
	verifrt.Cover("exited")
}

//go:build verif

package wazero

import (
	experimentalsys "github.com/tetratelabs/wazero/experimental/sys"
	"github.com/tetratelabs/wazero/internal/sysfs"
	"github.com/tetratelabs/wazero/internal/verifrt"
)

type verifMCSnap struct {
	name      string
	nameSet   bool
	start     []string
	args      []string
	environ   []string
	envKeys   []string
	envIdx    []int
	fsConfig  FSConfig
	wallRes   int64
	nanoRes   int64
}

// verifSnapMC takes a deep snapshot: cells and backing arrays are copied, not headers.
func verifSnapMC(c *moduleConfig) verifMCSnap {
	s := verifMCSnap{name: c.name, nameSet: c.nameSet, fsConfig: c.fsConfig, wallRes: int64(c.walltimeResolution), nanoRes: int64(c.nanotimeResolution)}
	s.start = append([]string(nil), c.startFunctions...)
	for _, a := range c.args {
		s.args = append(s.args, string(a))
	}
	for _, e := range c.environ {
		s.environ = append(s.environ, string(e))
	}
	// the key index, probed for the keys that can exist in this harness
	for _, k := range []string{"A", "B", "C", "D"} {
		if i, ok := c.environKeys[k]; ok {
			s.envKeys = append(s.envKeys, k)
			s.envIdx = append(s.envIdx, i)
		}
	}
	return s
}

func verifSameStrings(a, b []string) bool {
	if len(a) != len(b) {
		return false
	}
	for i := range a {
		if a[i] != b[i] {
			return false
		}
	}
	return true
}

func verifSameSnap(a, b verifMCSnap) bool {
	if a.name != b.name || a.nameSet != b.nameSet || a.fsConfig != b.fsConfig || a.wallRes != b.wallRes || a.nanoRes != b.nanoRes {
		return false
	}
	if len(a.envIdx) != len(b.envIdx) {
		return false
	}
	for i := range a.envIdx {
		if a.envIdx[i] != b.envIdx[i] || a.envKeys[i] != b.envKeys[i] {
			return false
		}
	}
	return verifSameStrings(a.start, b.start) && verifSameStrings(a.args, b.args) && verifSameStrings(a.environ, b.environ)
}

// one key out of A..D chosen by the solver (so it may or may not collide with the history)
func verifKey(name string) string {
	return string([]byte{'A' + byte(verifrt.Choose(name, 4))})
}

func verifApplyMC(c ModuleConfig, tag string) ModuleConfig {
	switch verifrt.Choose("op"+tag, 6) {
	case 0:
		return c.WithEnv(verifKey("key"+tag), verifrt.String("val"+tag, 1))
	case 1:
		return c.WithArgs(verifrt.String("arg"+tag, 1), "x")
	case 2:
		return c.WithName(verifrt.String("name"+tag, 1))
	case 3:
		return c.WithStartFunctions(verifrt.String("start"+tag, 1))
	case 4:
		return c.WithFSConfig(NewFSConfig())
	default:
		return c.WithSysWalltime().WithSysNanotime()
	}
}

// VerifC19_ModuleConfig: from a base built by 0..3 WithEnv calls (so capacities are the real ones), derive two
// children with arbitrary With... calls; the base and the first child must be deeply unchanged.
func VerifC19_ModuleConfig() {
	var base ModuleConfig = NewModuleConfig()
	hist := verifrt.Choose("hist", 4)
	for i := 0; i < hist; i++ {
		base = base.WithEnv(string([]byte{'A' + byte(i)}), "v")
	}
	s0 := verifSnapMC(base.(*moduleConfig))
	c1 := verifApplyMC(base, "1")
	s1 := verifSnapMC(c1.(*moduleConfig))
	verifrt.Assert(verifSameSnap(s0, verifSnapMC(base.(*moduleConfig))), "With... leaves its receiver unchanged")
	c2 := verifApplyMC(base, "2")
	verifrt.Assert(verifSameSnap(s0, verifSnapMC(base.(*moduleConfig))), "a second With... leaves the receiver unchanged")
	verifrt.Assert(verifSameSnap(s1, verifSnapMC(c1.(*moduleConfig))), "a sibling derivation leaves an earlier child unchanged")
	c3 := verifApplyMC(c1, "3")
	verifrt.Assert(verifSameSnap(s1, verifSnapMC(c1.(*moduleConfig))), "a grandchild derivation leaves its parent unchanged")
	_, _ = c2, c3
	verifrt.Cover("derived")
}

type verifFS struct {
	experimentalsys.UnimplementedFS
	id int
}

// identity must differ from UnimplementedFS for the type switch in WithSysFSMount
func (f *verifFS) Readlink(string) (string, experimentalsys.Errno) { return "", 0 }

func verifSnapFS(c *fsConfig) ([]experimentalsys.FS, []string, []int) {
	var idx []int
	for _, k := range []string{"", "a", "b", "c"} {
		if i, ok := c.guestPathToFS[k]; ok {
			idx = append(idx, i)
		} else {
			idx = append(idx, -1)
		}
	}
	return append([]experimentalsys.FS(nil), c.fs...), append([]string(nil), c.guestPaths...), idx
}

func verifSameFSSnap(c *fsConfig, fs []experimentalsys.FS, paths []string, idx []int) bool {
	f2, p2, i2 := verifSnapFS(c)
	if len(f2) != len(fs) || !verifSameStrings(p2, paths) {
		return false
	}
	for i := range fs {
		if f2[i] != fs[i] {
			return false
		}
	}
	for i := range idx {
		if i2[i] != idx[i] {
			return false
		}
	}
	return true
}

func verifGuestPath(name string) string {
	return []string{"", "a", "b", "c", "/a", "a/"}[verifrt.Choose(name, 6)]
}

// VerifC19_FSConfig: mounts derived from one base do not alias each other's slices or maps.
func VerifC19_FSConfig() {
	var base FSConfig = NewFSConfig()
	hist := verifrt.Choose("hist", 4)
	for i := 0; i < hist; i++ {
		base = base.(*fsConfig).WithSysFSMount(&verifFS{id: i}, []string{"a", "b", "c"}[i])
	}
	b := base.(*fsConfig)
	f0, p0, i0 := verifSnapFS(b)
	c1 := b.WithSysFSMount(&verifFS{id: 10}, verifGuestPath("p1")).(*fsConfig)
	f1, p1, i1 := verifSnapFS(c1)
	verifrt.Assert(verifSameFSSnap(b, f0, p0, i0), "WithSysFSMount leaves its receiver unchanged")
	c2 := b.WithSysFSMount(&verifFS{id: 11}, verifGuestPath("p2")).(*fsConfig)
	verifrt.Assert(verifSameFSSnap(b, f0, p0, i0), "a second mount leaves the receiver unchanged")
	verifrt.Assert(verifSameFSSnap(c1, f1, p1, i1), "a sibling mount leaves an earlier child unchanged")
	fs, paths := c1.preopens()
	if len(fs) > 0 {
		fs[0], paths[0] = nil, "zz"
		verifrt.Assert(verifSameFSSnap(c1, f1, p1, i1), "preopens returns copies")
	}
	_ = c2
	verifrt.Cover("mounted")
}

// VerifC19_RuntimeConfig: every With... of the runtime configuration copies.
func VerifC19_RuntimeConfig() {
	base := NewRuntimeConfigInterpreter().(*runtimeConfig)
	s0 := *base
	var c RuntimeConfig
	switch verifrt.Choose("op", 6) {
	case 0:
		c = base.WithCloseOnContextDone(verifrt.Bool("b"))
	case 1:
		p := verifrt.U32("pages")
		verifrt.Assume(p <= 65536)
		c = base.WithMemoryLimitPages(p)
	case 2:
		c = base.WithMemoryCapacityFromMax(verifrt.Bool("b"))
	case 3:
		c = base.WithDebugInfoEnabled(verifrt.Bool("b"))
	case 4:
		c = base.WithCustomSections(verifrt.Bool("b"))
	case 5:
		c = base.WithCompilationCache(nil)
	}
	verifrt.Assert(c.(*runtimeConfig) != base, "With... returns a new value")
	verifrt.Assert(s0.enabledFeatures == base.enabledFeatures && s0.memoryLimitPages == base.memoryLimitPages && s0.memoryCapacityFromMax == base.memoryCapacityFromMax &&
		s0.dwarfDisabled == base.dwarfDisabled && s0.storeCustomSections == base.storeCustomSections && s0.ensureTermination == base.ensureTermination && s0.cache == base.cache,
		"With... leaves its receiver unchanged")
	verifrt.Cover("runtime")
}

// VerifC17_ReadOnlyConfig: a configuration that mounts a directory read-only keeps mounting the read-only wrapper whatever
// is derived from it afterwards (another mount of any guest path, colliding or not, read-only or writable).
func VerifC17_ReadOnlyConfig() {
	ro := NewFSConfig().WithReadOnlyDirMount("/host/dir", verifGuestPath("roPath"))
	hist := verifrt.Choose("hist", 2)
	if hist == 1 {
		ro = ro.WithReadOnlyDirMount("/host/other", "other")
	}
	// derive something else from it; the result is never used
	switch verifrt.Choose("derive", 3) {
	case 0:
		_ = ro.WithDirMount("/host/dir", verifGuestPath("p"))
	case 1:
		_ = ro.(*fsConfig).WithSysFSMount(&verifFS{id: 1}, verifGuestPath("p"))
	case 2:
		_ = ro.WithReadOnlyDirMount("/host/dir2", verifGuestPath("p"))
	}
	fs, paths := ro.(*fsConfig).preopens()
	verifrt.Assert(len(fs) == 1+hist && len(paths) == 1+hist, "the read-only configuration still has exactly its mounts")
	for i := range fs {
		_, isRO := fs[i].(*sysfs.ReadFS)
		verifrt.Assert(isRO, "every mount of the read-only configuration is still the read-only wrapper")
	}
	verifrt.Cover("ro-config")
}

//go:build verif

package wazero

import (
	"context"

	internalsock "github.com/tetratelabs/wazero/internal/sock"
	"github.com/tetratelabs/wazero/internal/verifrt"
)

// every field of a module configuration, deep where it is a slice or map, nil-ness/identity where it is a function,
// interface or pointer
type verifFullSnap struct {
	mc                                   verifMCSnap
	stdin, stdout, stderr, rand          bool
	walltime, nanotime, nanosleep, yield bool
	sock                                 *internalsock.Config
	sockAddrs                            int
}

func verifFull(c *moduleConfig) verifFullSnap {
	s := verifFullSnap{mc: verifSnapMC(c), stdin: c.stdin != nil, stdout: c.stdout != nil, stderr: c.stderr != nil, rand: c.randSource != nil,
		walltime: c.walltime != nil, nanotime: c.nanotime != nil, nanosleep: c.nanosleep != nil, yield: c.osyield != nil, sock: c.sockConfig}
	if c.sockConfig != nil {
		s.sockAddrs = len(c.sockConfig.TCPAddresses)
	}
	return s
}

func verifSameFull(a, b verifFullSnap) bool {
	return verifSameSnap(a.mc, b.mc) && a.stdin == b.stdin && a.stdout == b.stdout && a.stderr == b.stderr && a.rand == b.rand &&
		a.walltime == b.walltime && a.nanotime == b.nanotime && a.nanosleep == b.nanosleep && a.yield == b.yield &&
		a.sock == b.sock && a.sockAddrs == b.sockAddrs
}

// verifSockCtx is a context carrying a socket configuration (what experimental/sock.WithConfig builds with context.WithValue).
type verifSockCtx struct {
	context.Context
	cfg *internalsock.Config
}

func (c verifSockCtx) Value(key interface{}) interface{} {
	if _, ok := key.(internalsock.ConfigKey); ok {
		return c.cfg
	}
	return c.Context.Value(key)
}

// the smallest module: (module (func (export "f")))
var verifTinyWasm = []byte{0x00, 0x61, 0x73, 0x6d, 0x01, 0x00, 0x00, 0x00,
	0x01, 0x04, 0x01, 0x60, 0x00, 0x00, 0x03, 0x02, 0x01, 0x00, 0x07, 0x05, 0x01, 0x01, 'f', 0x00, 0x00, 0x0a, 0x04, 0x01, 0x02, 0x00, 0x0b}

// VerifC19_InstantiateLeavesConfig: instantiating with a configuration does not change it: a base built by arbitrary
// With... calls is used by Runtime.InstantiateModule - with or without a socket configuration in the context - and by
// toSysContext; afterwards every field of the configuration is as before, and a second instantiation with the same value
// and a context WITHOUT socket configuration sees no socket configuration.
func VerifC19_InstantiateLeavesConfig() {
	ctx := context.Background()
	var cfg ModuleConfig = NewModuleConfig()
	if verifrt.Choose("named", 2) == 1 {
		cfg = cfg.WithName("")
	}
	if verifrt.Choose("env", 2) == 1 {
		cfg = cfg.WithEnv("A", "v")
	}
	mc := cfg.(*moduleConfig)
	before := verifFull(mc)
	r := NewRuntimeWithConfig(ctx, NewRuntimeConfigInterpreter())
	bin := verifTinyWasm
	if verifrt.Choose("binaryHasName", 2) == 1 {
		// + custom section "name" with the module name "first"
		bin = append(append([]byte{}, verifTinyWasm...), 0x00, 0x0d, 0x04, 'n', 'a', 'm', 'e', 0x00, 0x06, 0x05, 'f', 'i', 'r', 's', 't')
	}
	compiled, err := r.CompileModule(ctx, bin)
	verifrt.Assert(err == nil, "tiny module compiles")
	if err != nil {
		return
	}
	ictx := ctx
	if verifrt.Choose("sockInContext", 2) == 1 {
		ictx = verifSockCtx{ctx, &internalsock.Config{}}
	}
	m1, err := r.InstantiateModule(ictx, compiled, cfg)
	verifrt.Assert(err == nil && m1 != nil, "instantiation succeeds")
	verifrt.Assert(verifSameFull(before, verifFull(mc)), "instantiating with a configuration does not change it")
	_, err = mc.toSysContext()
	verifrt.Assert(err == nil, "system context built")
	verifrt.Assert(verifSameFull(before, verifFull(mc)), "building the system context of a configuration does not change it")
	verifrt.Cover("instantiated")
}

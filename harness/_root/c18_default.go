//go:build verif

package wazero

import (
	"github.com/tetratelabs/wazero/internal/verifrt"
)

// VerifC18_DefaultContext: two system contexts built from the default module configuration by the real
// NewModuleConfig().toSysContext() ("two processes"; every host source that is not stubbed by the default configuration
// - time.Now, sleeping, the OS entropy source, os.Args/Environ - is an unconstrained value or cuts the path in the
// executor): their clocks, random bytes, args, environment, stdio and file table are equal to each other and to the fixed
// documented sequence, reading after reading.
func VerifC18_DefaultContext() {
	shared := NewModuleConfig().(*moduleConfig) // one configuration value used for several instances, as embedders do
	a, err := shared.toSysContext()
	verifrt.Assert(err == nil, "default configuration builds a system context")
	b, err2 := NewModuleConfig().(*moduleConfig).toSysContext()
	if err != nil || err2 != nil {
		return
	}
	verifrt.Assert(len(a.Args()) == 0 && len(a.Environ()) == 0 && a.ArgsSize() == 0 && a.EnvironSize() == 0, "no host arguments or environment are visible")
	const epochNanos = int64(1640995200000 * 1000000) // 2022-01-01 UTC, the documented fake epoch
	for k := int64(0); k < 3; k++ {
		sa, na := a.Walltime()
		sb, nb := b.Walltime()
		verifrt.Assert(sa == sb && na == nb, "wall clock readings are the same in every instance")
		want := epochNanos + k*1000000
		verifrt.Assert(sa == want/1e9 && int64(na) == want%1e9, "wall clock is the fixed sequence starting at the fake epoch, 1ms per reading")
		ta, tb := a.Nanotime(), b.Nanotime()
		verifrt.Assert(ta == tb && ta == k*1000000, "monotonic clock is the fixed sequence starting at zero, 1ms per reading")
	}
	a.Nanosleep(verifrt.I64("sleep"))
	a.Osyield()
	bufA, bufB := make([]byte, 8), make([]byte, 8)
	nA, eA := a.RandSource().Read(bufA)
	nB, eB := b.RandSource().Read(bufB)
	verifrt.Assert(nA == 8 && nB == 8 && eA == nil && eB == nil, "random source yields bytes")
	for i := range bufA {
		verifrt.Assert(bufA[i] == bufB[i], "random bytes are the same deterministic sequence in every instance")
	}
	// an instance created later from the SAME configuration value, after earlier instances consumed readings, starts
	// from the same values again (and so does one derived from it)
	for which := 0; which < 2; which++ {
		cfg := shared
		if which == 1 {
			cfg = shared.WithName("later").(*moduleConfig)
		}
		c, err3 := cfg.toSysContext()
		verifrt.Assert(err3 == nil, "default configuration builds a system context again")
		if err3 != nil {
			return
		}
		bufC := make([]byte, 8)
		nC, eC := c.RandSource().Read(bufC)
		verifrt.Assert(nC == 8 && eC == nil, "random source yields bytes")
		for i := range bufC {
			verifrt.Assert(bufC[i] == bufA[i], "an instance created later from the same configuration starts from the same random bytes")
		}
		sc, nc := c.Walltime()
		verifrt.Assert(sc == epochNanos/1e9 && int64(nc) == epochNanos%1e9 && c.Nanotime() == 0, "an instance created later from the same configuration starts its clocks from the same values")
	}
	// stdio: stdin is empty, output is discarded
	in, ok := a.FS().LookupFile(0)
	verifrt.Assert(ok, "stdin is open")
	if ok {
		n, errno := in.File.Read(make([]byte, 4))
		verifrt.Assert(n == 0 && errno == 0, "standard input is empty")
	}
	out, ok := a.FS().LookupFile(1)
	if ok {
		n, errno := out.File.Write([]byte("x"))
		verifrt.Assert(n == 1 && errno == 0, "standard output accepts and discards writes")
	}
	_, has3 := a.FS().LookupFile(3)
	verifrt.Assert(!has3, "no file system is pre-opened by default")
	verifrt.Cover("default")
}

package verifrt

// Models of the operating-system environment. Under gosym the functions of package os (and wazero's mmap wrappers) that
// reach the kernel are redirected to the functions in this file (gosym/exec.go: modelRedirect), which are ordinary Go
// code executed symbolically. Natively they are never called (the real os package is used).
//
// The file-system model is a flat namespace path -> inode. Every operation that changes what a LATER process would find
// (create, write, rename, remove; sync and close are counted too because they may fail) is one STEP. Before each step
// the harness-supplied observer FS.OnStep is called: the state it sees is the state a crash at that point leaves behind.
// One operation, chosen by FS.FailAt, fails with FS.FailErr (a write fails after persisting half of its bytes).

import (
	"errors"
	"io"
	"io/fs"
	"os"
	"strconv"
)

// ---- executable memory

func ModelMmapCodeSegment(size int) ([]byte, error) { return make([]byte, size), nil }
func ModelMunmapCodeSegment(code []byte) error      { return nil }
func ModelMprotectRX(b []byte) error                { return nil }

// ---- files

type MInode struct{ Data []byte }

type mHandle struct {
	name     string
	ino      *MInode
	pos      int
	closed   bool
	writable bool
	appendTo bool
}

type MFS struct {
	Files   map[string]*MInode
	handles map[*os.File]*mHandle
	Steps   int // number of steps performed so far
	OnStep  func(step int, op string)
	FailAt  int // the step that fails; -1: none
	FailErr error
	Log     []string
	tmp     int
}

// ErrModelIO is the error of an injected failure (stands for EIO / ENOSPC).
var ErrModelIO = errors.New("model: input/output error")

// FS is the model instance (nil until ModelFSReset is called by a harness).
var FS *MFS

func ModelFSReset() *MFS {
	FS = &MFS{Files: map[string]*MInode{}, handles: map[*os.File]*mHandle{}, FailAt: -1, FailErr: ErrModelIO}
	return FS
}

func mfs() *MFS {
	if FS == nil {
		ModelFSReset()
	}
	return FS
}

// step announces a state-changing operation; it reports whether the operation must fail.
func (m *MFS) step(op string) bool {
	if m.OnStep != nil {
		m.OnStep(m.Steps, op)
	}
	m.Log = append(m.Log, op)
	k := m.Steps
	m.Steps++
	return k == m.FailAt
}

func notExist(op, name string) error { return &fs.PathError{Op: op, Path: name, Err: fs.ErrNotExist} }

func (m *MFS) open(name string, flag int) (*os.File, error) {
	ino, ok := m.Files[name]
	creating := flag&os.O_CREATE != 0 && !ok
	if flag&os.O_CREATE != 0 && flag&os.O_EXCL != 0 && ok {
		return nil, &fs.PathError{Op: "open", Path: name, Err: fs.ErrExist}
	}
	if !ok && flag&os.O_CREATE == 0 {
		return nil, notExist("open", name)
	}
	truncating := ok && flag&os.O_TRUNC != 0 && len(ino.Data) > 0
	if creating || truncating {
		if m.step("create " + name) {
			return nil, &fs.PathError{Op: "open", Path: name, Err: m.FailErr}
		}
	}
	if creating {
		ino = &MInode{}
		m.Files[name] = ino
	}
	if truncating {
		ino.Data = nil
	}
	f := new(os.File)
	m.handles[f] = &mHandle{name: name, ino: ino, writable: flag&(os.O_WRONLY|os.O_RDWR) != 0, appendTo: flag&os.O_APPEND != 0}
	return f, nil
}

func ModelOpenFile(name string, flag int, perm os.FileMode) (*os.File, error) {
	return mfs().open(name, flag)
}
func ModelOpen(name string) (*os.File, error) { return mfs().open(name, os.O_RDONLY) }
func ModelCreate(name string) (*os.File, error) {
	return mfs().open(name, os.O_RDWR|os.O_CREATE|os.O_TRUNC)
}

// ModelCreateTemp follows os.CreateTemp: the last "*" of pattern is replaced by a fresh string.
func ModelCreateTemp(dir, pattern string) (*os.File, error) {
	m := mfs()
	prefix, suffix := pattern, ""
	for i := len(pattern) - 1; i >= 0; i-- {
		if pattern[i] == '*' {
			prefix, suffix = pattern[:i], pattern[i+1:]
			break
		}
	}
	if dir == "" {
		dir = "/tmp"
	}
	if dir[len(dir)-1] != '/' {
		dir += "/"
	}
	for {
		m.tmp++
		name := dir + prefix + "r" + strconv.Itoa(m.tmp) + suffix
		if _, exists := m.Files[name]; !exists {
			return m.open(name, os.O_RDWR|os.O_CREATE|os.O_EXCL)
		}
	}
}

func (m *MFS) handle(f *os.File) (*mHandle, error) {
	if f == nil {
		return nil, os.ErrInvalid
	}
	h, ok := m.handles[f]
	if !ok {
		return nil, os.ErrInvalid
	}
	if h.closed {
		return nil, &fs.PathError{Op: "file", Path: h.name, Err: os.ErrClosed}
	}
	return h, nil
}

func ModelFileWrite(f *os.File, b []byte) (int, error) {
	m := mfs()
	h, err := m.handle(f)
	if err != nil {
		return 0, err
	}
	if !h.writable {
		return 0, &fs.PathError{Op: "write", Path: h.name, Err: fs.ErrInvalid}
	}
	n := len(b)
	failed := m.step("write " + h.name) // also for an empty buffer: the system call is made
	if failed {
		n = len(b) / 2 // a failing write may have persisted part of its bytes
	}
	if h.appendTo {
		h.pos = len(h.ino.Data)
	}
	for len(h.ino.Data) < h.pos+n {
		h.ino.Data = append(h.ino.Data, 0)
	}
	copy(h.ino.Data[h.pos:h.pos+n], b[:n])
	h.pos += n
	if failed {
		return n, &fs.PathError{Op: "write", Path: h.name, Err: m.FailErr}
	}
	return n, nil
}

func ModelFileWriteString(f *os.File, s string) (int, error) { return ModelFileWrite(f, []byte(s)) }

func ModelFileRead(f *os.File, b []byte) (int, error) {
	h, err := mfs().handle(f)
	if err != nil {
		return 0, err
	}
	if len(b) == 0 {
		return 0, nil
	}
	if h.pos >= len(h.ino.Data) {
		return 0, io.EOF
	}
	n := copy(b, h.ino.Data[h.pos:])
	h.pos += n
	return n, nil
}

func ModelFileSync(f *os.File) error {
	m := mfs()
	h, err := m.handle(f)
	if err != nil {
		return err
	}
	if m.step("sync " + h.name) {
		return &fs.PathError{Op: "sync", Path: h.name, Err: m.FailErr}
	}
	return nil
}

func ModelFileClose(f *os.File) error {
	m := mfs()
	h, err := m.handle(f)
	if err != nil {
		return err
	}
	h.closed = true
	if h.writable {
		if m.step("close " + h.name) {
			return &fs.PathError{Op: "close", Path: h.name, Err: m.FailErr}
		}
	}
	return nil
}

func ModelFileName(f *os.File) string {
	if h, ok := mfs().handles[f]; ok {
		return h.name
	}
	return ""
}

// ModelFileReadFrom is the generic copy loop of (*os.File).ReadFrom.
func ModelFileReadFrom(f *os.File, r io.Reader) (int64, error) {
	var total int64
	buf := make([]byte, 8)
	for {
		n, rerr := r.Read(buf)
		if n > 0 {
			w, werr := ModelFileWrite(f, buf[:n])
			total += int64(w)
			if werr != nil {
				return total, werr
			}
		}
		if rerr == io.EOF {
			return total, nil
		}
		if rerr != nil {
			return total, rerr
		}
	}
}

func ModelRename(oldpath, newpath string) error {
	m := mfs()
	ino, ok := m.Files[oldpath]
	if !ok {
		return &os.LinkError{Op: "rename", Old: oldpath, New: newpath, Err: fs.ErrNotExist}
	}
	if m.step("rename " + oldpath + " " + newpath) {
		return &os.LinkError{Op: "rename", Old: oldpath, New: newpath, Err: m.FailErr}
	}
	delete(m.Files, oldpath)
	m.Files[newpath] = ino
	return nil
}

func ModelLink(oldpath, newpath string) error {
	m := mfs()
	ino, ok := m.Files[oldpath]
	if !ok {
		return &os.LinkError{Op: "link", Old: oldpath, New: newpath, Err: fs.ErrNotExist}
	}
	if _, exists := m.Files[newpath]; exists {
		return &os.LinkError{Op: "link", Old: oldpath, New: newpath, Err: fs.ErrExist}
	}
	if m.step("link " + oldpath + " " + newpath) {
		return &os.LinkError{Op: "link", Old: oldpath, New: newpath, Err: m.FailErr}
	}
	m.Files[newpath] = ino
	return nil
}

func ModelRemove(name string) error {
	m := mfs()
	if _, ok := m.Files[name]; !ok {
		return notExist("remove", name)
	}
	if m.step("remove " + name) {
		return &fs.PathError{Op: "remove", Path: name, Err: m.FailErr}
	}
	delete(m.Files, name)
	return nil
}

func ModelMkdirAll(path string, perm os.FileMode) error { return nil }

func ModelWriteFile(name string, data []byte, perm os.FileMode) error {
	f, err := mfs().open(name, os.O_WRONLY|os.O_CREATE|os.O_TRUNC)
	if err != nil {
		return err
	}
	_, err = ModelFileWrite(f, data)
	if err1 := ModelFileClose(f); err1 != nil && err == nil {
		err = err1
	}
	return err
}

func ModelReadFile(name string) ([]byte, error) {
	ino, ok := mfs().Files[name]
	if !ok {
		return nil, notExist("open", name)
	}
	return append([]byte(nil), ino.Data...), nil
}

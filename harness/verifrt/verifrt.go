// Package verifrt is the harness run-time of /verif (overlay-only; never written into the repository).
//
// Under gosym every function here is intercepted and gets its symbolic meaning. Natively (go test
// -overlay) the same functions read the values of a replay file named by $VERIF_REPLAY, so that a
// harness is also the replay of the counterexamples the solver finds for it.
package verifrt

import (
	"encoding/json"
	"fmt"
	"os"
	"strconv"
	"strings"
)

type replay struct {
	vals     map[string]json.RawMessage
	expected map[string]string
	choose   map[string]int
	initial  map[string]map[uint64]byte
}

var (
	rp       *replay
	Failures []string
	Covered  []string
	alloc    uint64
)

// AssumeFailed is the panic value of a failed Assume in a native run.
type AssumeFailed struct{}

func load() *replay {
	if rp != nil {
		return rp
	}
	rp = &replay{vals: map[string]json.RawMessage{}, expected: map[string]string{}, choose: map[string]int{}, initial: map[string]map[uint64]byte{}}
	path := os.Getenv("VERIF_REPLAY")
	if path == "" {
		return rp
	}
	raw, err := os.ReadFile(path)
	if err != nil {
		panic(err)
	}
	var top struct {
		Model map[string]json.RawMessage `json:"model"`
	}
	if err := json.Unmarshal(raw, &top); err != nil {
		panic(err)
	}
	rp.vals = top.Model
	if e, ok := top.Model["_expected"]; ok {
		json.Unmarshal(e, &rp.expected)
	}
	return rp
}

// Reset clears the per-run state (used by the replay driver between runs).
func Reset() { rp = nil; Failures = nil; Covered = nil; alloc = 0 }

func num(name string) uint64 {
	r := load()
	raw, ok := r.vals[name]
	if !ok {
		return 0
	}
	s := strings.Trim(string(raw), "\"")
	v, err := strconv.ParseUint(s, 10, 64)
	if err != nil {
		panic(fmt.Sprintf("verifrt: bad value for %s: %s", name, raw))
	}
	return v
}

func U8(name string) uint8     { return uint8(num(name)) }
func U16(name string) uint16   { return uint16(num(name)) }
func U32(name string) uint32   { return uint32(num(name)) }
func U64(name string) uint64   { return num(name) }
func I8(name string) int8      { return int8(num(name)) }
func I16(name string) int16    { return int16(num(name)) }
func I32(name string) int32    { return int32(num(name)) }
func I64(name string) int64    { return int64(num(name)) }
func Int(name string) int      { return int(num(name)) }
func Bool(name string) bool    { return num(name) != 0 }
func F32(name string) uint32   { return uint32(num(name)) } // IEEE bits
func F64(name string) uint64   { return num(name) }         // IEEE bits

// Bytes returns a buffer of n bytes with arbitrary content.
func Bytes(name string, n uint64) []byte {
	r := load()
	b := make([]byte, n)
	init := map[uint64]byte{}
	if raw, ok := r.vals[name]; ok {
		var a struct {
			Bytes map[string]uint64 `json:"bytes"`
		}
		json.Unmarshal(raw, &a)
		for k, v := range a.Bytes {
			i, _ := strconv.ParseUint(k, 10, 64)
			if i < n {
				b[i] = byte(v)
				init[i] = byte(v)
			}
		}
	}
	r.initial[name] = init
	if n > 0 {
		initialOf[&b[0]] = name
	}
	return b
}

var initialOf = map[*byte]string{}

// Words returns n arbitrary 64-bit words (n is concretised under gosym).
func Words(name string, n uint64) []uint64 {
	w := make([]uint64, n)
	for i := range w {
		w[i] = num(fmt.Sprintf("%s[%d]", name, i))
	}
	return w
}

// String returns a string of exactly n arbitrary bytes.
func String(name string, n int) string {
	b := make([]byte, n)
	for i := range b {
		b[i] = byte(num(fmt.Sprintf("%s[%d]", name, i)))
	}
	return string(b)
}

// Choose returns an arbitrary value in [0,n); under gosym every value is explored on its own path.
func Choose(name string, n int) int {
	r := load()
	k := r.choose[name]
	r.choose[name] = k + 1
	vn := name
	if k > 0 {
		vn = fmt.Sprintf("%s#%d", name, k)
	}
	v := int(num(vn))
	if v >= n {
		panic(AssumeFailed{})
	}
	return v
}

// Assume restricts the inputs considered.
func Assume(c bool) {
	if !c {
		panic(AssumeFailed{})
	}
}

// Assert is an obligation: it must hold for every input admitted by the Assumes before it.
func Assert(c bool, msg string) {
	if !c {
		Failures = append(Failures, msg)
	}
}

// Cover marks a point that must be reachable (vacuity witness).
func Cover(label string) { Covered = append(Covered, label) }

// Expected records the value a specification-side expression takes (for replay reports).
func Expected(name string, v uint64) {}

// AllocBytes returns the bytes allocated so far on this path (0 natively).
func AllocBytes() uint64 { return 0 }

// SetAllocBudget makes every later allocation an obligation: total allocated since now <= n.
func SetAllocBudget(n uint64) {}

// Initial returns the byte a Bytes input held at index i before the harness ran.
func Initial(b []byte, i uint64) byte {
	if len(b) == 0 {
		return 0
	}
	name := initialOf[&b[:1][0]]
	return load().initial[name][i]
}

// Symbolic reports whether the harness runs under the symbolic executor.
func Symbolic() bool { return false }

func Note(s string) {}

// Stub records that an environment stub was used (listed in the evidence).
func Stub(name string) {}

// Or / And / Ite combine conditions without creating branches (one solver term instead of forked paths).
func Or(a, b bool) bool  { return a || b }
func And(a, b bool) bool { return a && b }

// SetStepBudget: under gosym, executing more than n further SSA instructions on a path is a violation with message msg
// (bounded non-termination check); n == 0 clears the budget. Natively a no-op: the replay of such a violation is a hang.
func SetStepBudget(n uint64, msg string) {}

// Thorough reports whether the check runs in the thorough tier (larger bounds).
func Thorough() bool { return os.Getenv("VERIF_TIER") == "thorough" }

// MaybeNil returns nil when isNil holds and x otherwise. Under gosym the choice does not fork: comparisons of the result
// with nil yield the symbolic condition.
func MaybeNil[T any](x T, isNil bool) T {
	if isNil {
		var zero T
		return zero
	}
	return x
}

// SetMapOrderNondet makes `range` over maps of 2 or 3 entries visit them in every order (one path per permutation) from
// now on, as the language leaves the order unspecified. Natively it does nothing (the run time randomises by itself).
func SetMapOrderNondet(on bool) {}

package verifrt

import (
	"fmt"
	"runtime/debug"
)

// RunReplay runs a harness natively with the values of $VERIF_REPLAY and prints one REPLAY-RESULT line.
func RunReplay(name string, f func()) {
	Reset()
	outcome := "ok"
	detail := ""
	func() {
		defer func() {
			if r := recover(); r != nil {
				if _, ok := r.(AssumeFailed); ok {
					// an assertion that failed before the path was abandoned is the outcome
					if len(Failures) == 0 {
						outcome = "assume-failed"
					}
					return
				}
				outcome = "panic"
				detail = fmt.Sprintf("%v", r)
				if len(detail) > 300 {
					detail = detail[:300]
				}
				_ = debug.Stack
			}
		}()
		f()
	}()
	if outcome == "ok" && len(Failures) > 0 {
		outcome = "assert"
		detail = Failures[0]
	}
	fmt.Printf("REPLAY-RESULT harness=%s outcome=%s detail=%q failures=%q\n", name, outcome, detail, Failures)
}

package verifrt

import (
	"crypto/sha256"
	"hash"
)

// Model of a SHA-256 digest object (gosym redirects crypto/sha256.New here): it accumulates what is written and computes the
// real SHA-256 of it in Sum, so every result is unchanged; in addition the byte stream that was hashed is recorded in
// HashLog, which lets a harness reason about the hash INPUT (e.g. that two different configurations never produce the
// same input) instead of about SHA-256 itself.
type modelHash struct{ buf []byte }

// SkipDigest makes Sum return an all-zero digest (for harnesses that reason about the recorded input only and feed
// symbolic bytes, for which evaluating SHA-256 symbolically would be pointless and slow).
var SkipDigest bool

// HashLog holds the inputs of all digests finished by Sum since the last ResetHashLog.
var HashLog [][]byte

func ResetHashLog() { HashLog = nil }

func ModelSha256New() hash.Hash { return &modelHash{} }

func (h *modelHash) Write(p []byte) (int, error) {
	h.buf = append(h.buf, p...)
	return len(p), nil
}

func (h *modelHash) Sum(b []byte) []byte {
	HashLog = append(HashLog, append([]byte(nil), h.buf...))
	if SkipDigest {
		return append(b, make([]byte, sha256.Size)...)
	}
	s := sha256.Sum256(h.buf)
	return append(b, s[:]...)
}

func (h *modelHash) Reset()         { h.buf = nil }
func (h *modelHash) Size() int      { return sha256.Size }
func (h *modelHash) BlockSize() int { return sha256.BlockSize }

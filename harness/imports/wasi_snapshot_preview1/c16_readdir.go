//go:build verif

package wasi_snapshot_preview1

import (
	"io/fs"

	experimentalsys "github.com/tetratelabs/wazero/experimental/sys"
	"github.com/tetratelabs/wazero/internal/verifrt"
	"github.com/tetratelabs/wazero/internal/wasm"
	"github.com/tetratelabs/wazero/sys"
)

// verifDirFS: a file system whose root directory lists the given names.
type verifDirFS struct {
	experimentalsys.UnimplementedFS
	names []string
}

func (d *verifDirFS) OpenFile(string, experimentalsys.Oflag, fs.FileMode) (experimentalsys.File, experimentalsys.Errno) {
	return &verifDirFile{fs: d}, 0
}

type verifDirFile struct {
	experimentalsys.UnimplementedFile
	fs  *verifDirFS
	pos int
}

func (f *verifDirFile) IsDir() (bool, experimentalsys.Errno) { return true, 0 }
func (f *verifDirFile) Stat() (sys.Stat_t, experimentalsys.Errno) {
	return sys.Stat_t{Mode: fs.ModeDir, Ino: 7}, 0
}
func (f *verifDirFile) Ino() (sys.Inode, experimentalsys.Errno)     { return 7, 0 }
func (f *verifDirFile) Seek(int64, int) (int64, experimentalsys.Errno) { f.pos = 0; return 0, 0 }
func (f *verifDirFile) Readdir(n int) ([]experimentalsys.Dirent, experimentalsys.Errno) {
	var out []experimentalsys.Dirent
	for (n < 0 || len(out) < n) && f.pos < len(f.fs.names) {
		out = append(out, experimentalsys.Dirent{Name: f.fs.names[f.pos], Ino: sys.Inode(100 + f.pos)})
		f.pos++
	}
	return out, 0
}
func (f *verifDirFile) Close() experimentalsys.Errno { return 0 }

// verifReaddirStep performs one fd_readdir call from cookie with an arbitrary buffer length 24..95 and checks it against
// the reference listing; returns the number of whole entries written.
func verifReaddirStep(mod *wasm.ModuleInstance, listing []string, cookie uint64, lenName string) int {
	mem := mod.MemoryInstance
	bufLen := verifrt.U32(lenName)
	verifrt.Assume(bufLen >= 24 && bufLen < 96)
	const buf, resultAt = 0, 1024
	stack := []uint64{3, buf, uint64(bufLen), cookie, resultAt}
	verifCallWasi(fdReaddir, mod, stack)
	verifrt.Assert(stack[0] == 0, "fd_readdir on an open directory with a cookie returned so far succeeds")
	if stack[0] != 0 {
		verifrt.Assume(false)
	}
	used, _ := mem.ReadUint32Le(resultAt)
	verifrt.Assert(used <= bufLen, "bufused never exceeds buf_len")
	pos := uint32(0)
	whole := 0
	truncated := false
	for i := int(cookie); i < len(listing); i++ {
		size := 24 + uint32(len(listing[i]))
		if pos+size > bufLen {
			truncated = true
			if bufLen-pos >= 24 {
				next, _ := mem.ReadUint64Le(buf + pos)
				nl, _ := mem.ReadUint32Le(buf + pos + 16)
				verifrt.Assert(next == uint64(i)+1 && nl == uint32(len(listing[i])), "a truncated entry still carries its own header")
			}
			break
		}
		next, _ := mem.ReadUint64Le(buf + pos)
		nl, _ := mem.ReadUint32Le(buf + pos + 16)
		verifrt.Assert(next == uint64(i)+1, "entries are consecutive: d_next is the index of the following entry")
		verifrt.Assert(nl == uint32(len(listing[i])), "d_namlen is the length of the entry's name")
		for j := 0; j < len(listing[i]); j++ {
			verifrt.Assert(mem.Buffer[buf+pos+24+uint32(j)] == listing[i][j], "the entry's name follows its header")
		}
		pos += size
		whole++
	}
	if truncated {
		verifrt.Assert(used == bufLen, "an entry that does not fit is reported truncated (bufused == buf_len), not skipped")
		verifrt.Cover("truncated")
	} else {
		verifrt.Assert(used == pos, "at the end of the directory bufused is the size of the entries written")
		verifrt.Cover("complete")
	}
	return whole
}

// VerifC16_Readdir: a directory of 0..3 entries read with two fd_readdir calls of arbitrary buffer lengths (24..95), the
// second continuing from the cookie of the last whole entry of the first: entries are written consecutively from the cookie
// with consecutive d_next values and their names; bufused never exceeds the buffer; bufused < buf_len only when every
// remaining entry was written completely - an entry that does not fit is reported truncated, never skipped.
//verif:opts split=entries:4
func VerifC16_Readdir() {
	all := []string{"a", "bb", "c"}
	k := verifrt.Choose("entries", 4)
	listing := append([]string{".", ".."}, all[:k]...)
	mod, _ := verifWasiModule(&verifDirFS{names: all[:k]})
	verifrt.Assume(len(mod.MemoryInstance.Buffer) >= 65536)
	n1 := verifReaddirStep(mod, listing, 0, "bufLen1")
	verifReaddirStep(mod, listing, uint64(n1), "bufLen2")
}

// VerifC16_ReaddirRewind: after two calls with arbitrary buffer lengths, a call with cookie 0 rewinds the directory: it
// yields the same listing from the start ('.', '..', entries), whatever the earlier buffer sizes were.
//verif:opts split=entries:2 wall=1500 tier=thorough
func VerifC16_ReaddirRewind() {
	all := []string{"a", "bb", "c"}
	k := verifrt.Choose("entries", 2) // an empty directory or one entry (the rewind logic does not depend on more)
	listing := append([]string{".", ".."}, all[:k]...)
	mod, _ := verifWasiModule(&verifDirFS{names: all[:k]})
	verifrt.Assume(len(mod.MemoryInstance.Buffer) >= 65536)
	n1 := verifReaddirStep(mod, listing, 0, "bufLen1")
	verifReaddirStep(mod, listing, uint64(n1), "bufLen2")
	verifReaddirStep(mod, listing, 0, "bufLen3")
}

//go:build verif

package wasi_snapshot_preview1

import (
	"context"

	"github.com/tetratelabs/wazero/api"
	internalsys "github.com/tetratelabs/wazero/internal/sys"
	"github.com/tetratelabs/wazero/internal/verifrt"
	"github.com/tetratelabs/wazero/internal/wasm"
)

// verifPollTwoFiles runs poll_oneoff with two fd_read subscriptions (fd 0 and fd 1) on a fresh default-configuration
// instance and returns errno, nevents and the 64 bytes of the event buffer.
func verifPollTwoFiles() (uint64, uint32, [64]byte) {
	sysCtx, err := internalsys.NewContext(0, nil, nil, nil, nil, nil, nil, nil, 0, nil, 0, nil, nil, nil, nil, nil)
	if err != nil {
		panic(err)
	}
	store := wasm.NewStore(api.CoreFeaturesV2, &verifEngine{})
	inst, err := store.Instantiate(context.Background(), &wasm.Module{}, "wasi-guest", sysCtx, nil)
	if err != nil {
		panic(err)
	}
	mem := &wasm.MemoryInstance{Buffer: make([]byte, 65536), Min: 1, Cap: 1, Max: 1}
	inst.MemoryInstance = mem
	for k := uint32(0); k < 2; k++ {
		base := k * 48
		mem.WriteUint64Le(base, uint64(0x1111*(k+1))) // userdata
		mem.WriteByte(base+8, 1)                      // eventtype fd_read
		mem.WriteUint32Le(base+16, k)                 // fd
	}
	stack := []uint64{0, 1024, 2, 2048}
	verifCallWasi(pollOneoff, inst, stack)
	nevents, _ := mem.ReadUint32Le(2048)
	var out [64]byte
	copy(out[:], mem.Buffer[1024:1024+64])
	return stack[0], nevents, out
}

// VerifC18_PollOneoffOrder: under default configuration the result of poll_oneoff with subscriptions on two different
// files is the same in every instance - in particular it does not depend on the iteration order of a Go map (explored
// here as every permutation; natively the double run is repeated, the run time randomises map order by itself).
func VerifC18_PollOneoffOrder() {
	verifrt.SetMapOrderNondet(true)
	rounds := 1
	if !verifrt.Symbolic() {
		rounds = 300
	}
	for i := 0; i < rounds; i++ {
		e1, n1, o1 := verifPollTwoFiles()
		e2, n2, o2 := verifPollTwoFiles()
		verifrt.Assert(e1 == e2 && n1 == n2 && o1 == o2, "poll_oneoff reports the same events in the same order in every instance")
	}
	verifrt.Cover("polled")
}

//go:build verif

package wasi_snapshot_preview1

import (
	"github.com/tetratelabs/wazero/internal/sysfs"
	"github.com/tetratelabs/wazero/internal/verifrt"
)

// VerifC17_OpenFlags: for all path_open flag words, what reaches the file system behind a read-only mount cannot
// create, empty or open a file for writing.
func VerifC17_OpenFlags() {
	dirflags, oflags, fdflags := verifrt.U16("dirflags"), verifrt.U16("oflags"), verifrt.U16("fdflags")
	rights := verifrt.U32("rights")
	flag := openFlags(dirflags, oflags, fdflags, rights)
	rec := &sysfs.VerifRecFS{}
	ro := &sysfs.ReadFS{FS: rec}
	_, errno := ro.OpenFile("p", flag, 0o600)
	if rec.Opens > 0 {
		verifrt.Assert(rec.LastFlag&sysfs.VerifWritingFlags == 0, "path_open on a read-only mount forwards no creating/truncating/writing flag")
		verifrt.Cover("forwarded")
	}
	if errno != 0 {
		verifrt.Cover("refused")
	}
}

//go:build verif

package wasi_snapshot_preview1

import (
	"github.com/tetratelabs/wazero/internal/verifrt"
	"github.com/tetratelabs/wazero/internal/wasm"
)

// names of parameters that are element counts driving a loop, with the size of one element in guest memory
func b2i(b bool) int {
	if b {
		return 1
	}
	return 0
}

// verifDeep: whether the thorough-tier bounds apply to the function being explored (see VerifC15_AnyArgs).
var verifDeep bool

var verifCountParams = map[string]uint64{"iovs_len": 8, "nsubscriptions": 48, "path_len": 1, "old_path_len": 1, "new_path_len": 1, "buf_len": 1, "ri_data_len": 8, "si_data_len": 8}

// VerifC15_AnyArgs: every exported WASI function with arbitrary argument words, an arbitrary memory of 0..65536 pages and
// a file system that answers arbitrarily: the call returns an errno (or ends the guest through proc_exit) - any Go
// run-time panic is a violation -, allocates no more than 16x the memory size + 1 MiB, and leaves the descriptor
// table consistent. Loop counts are either <= 2 or larger than what fits in the memory (the range in between needs more
// unwinding and is outside the claim).
//verif:opts split=fn:46 unwind=24 maxpaths=30000/200000 wall=600/3000
func VerifC15_AnyArgs() {
	hf := verifWasiFuncs[verifrt.Choose("fn", len(verifWasiFuncs))]
	// the deeper thorough-tier bounds (two symbolic path bytes, two subscriptions, three directory entries) apply to every
	// function except the seven whose exploration does not complete with them within 50 minutes
	verifDeep = verifrt.Thorough() && hf != fdReaddir && hf != pathFilestatGet && hf != pathFilestatSetTimes && hf != pathLink && hf != pathRename && hf != pathOpen && hf != pollOneoff
	mod, size := verifWasiModule(&verifNondetFS{})
	n := len(hf.ParamTypes)
	if n == 0 {
		n = 1
	}
	stack := make([]uint64, n)
	names := []string{"p0", "p1", "p2", "p3", "p4", "p5", "p6", "p7", "p8"}
	for i, t := range hf.ParamTypes {
		v := verifrt.U64(names[i])
		if t == wasm.ValueTypeI32 {
			v = uint64(uint32(v))
		}
		if i < len(hf.ParamNames) {
			if el, ok := verifCountParams[hf.ParamNames[i]]; ok {
				// iterations the function can perform: few (also when the 32-bit product wraps to few), or the
				// range cannot fit the memory and must be refused before any loop
				wrapped := uint64(uint32(v * el))
				small := uint64(2)
				if el == 1 && !verifDeep {
					small = 1 // paths and buffers: one symbolic byte in the quick tier, two in the thorough tier
				}
				if hf == pollOneoff {
					verifrt.Assume(v <= small-1+uint64(b2i(verifDeep))) // 1 subscription (2 where the deeper bounds apply); overflowing counts: VerifC15_PollOneoffCounts
				} else {
					verifrt.Assume(v <= small || wrapped <= small*el || wrapped > size)
				}
			}
		}
		if hf == pathOpen && (i == 1 || i == 5 || i == 6 || i == 7) {
			// the flag words of path_open are decided for all values by C17's VerifC17_OpenFlags;
			// here lookup flags / rights / fdflags are fixed to keep the path count small
			verifrt.Assume(v == 0)
		}
		if hf == fdRenumber && i == 1 {
			// the table grows to the target descriptor: small targets here, huge ones in VerifC15_RenumberAlloc
			verifrt.Assume(int32(v) < 192)
		}
		stack[i] = v
	}
	verifrt.SetAllocBudget(16*size + 1<<20)
	exit := verifCallWasi(hf, mod, stack)
	if exit == nil {
		verifrt.Assert(stack[0] <= 76, "the result is a WASI errno")
	}
	// descriptor table: stdio and the preopen are still there
	if hf != fdClose && hf != fdRenumber && mod.Sys != nil {
		fsc := mod.Sys.FS()
		_, ok3 := fsc.LookupFile(3)
		verifrt.Assert(ok3, "the preopened directory stays in the descriptor table")
	}
	verifrt.Cover("returned")
}

// VerifC15_RenumberAlloc: fd_renumber to a huge target descriptor must not make the host allocate out of proportion
// to the guest's memory (the descriptor table grows to the target).
func VerifC15_RenumberAlloc() {
	mod, size := verifWasiModule(&verifNondetFS{})
	verifrt.Assume(size <= 16<<16) // a small guest memory: the budget is then at most 17 MiB
	to := verifrt.U32("to")
	verifrt.Assume(int32(to) >= 1<<22) // 2^22 slots of 8 bytes already exceed it
	verifrt.SetAllocBudget(16*size + 1<<20)
	stack := []uint64{4, uint64(to)}
	verifCallWasi(fdRenumber, mod, stack)
	verifrt.Cover("renumbered")
}

// VerifC15_PollOneoffCounts: subscription counts whose byte size overflows 32 bits (48*n and 32*n) must be refused,
// not read as a shorter range and indexed past its end.
//verif:opts split=class:2 wall=240
func VerifC15_PollOneoffCounts() {
	mod, _ := verifWasiModule(&verifNondetFS{})
	var n uint32
	switch verifrt.Choose("class", 2) {
	case 0: // 48*n and 32*n wrap to exactly 0
		k := verifrt.U32("k")
		verifrt.Assume(k >= 1 && k <= 15)
		n = k << 28
	case 1: // any count too large for 32-bit sizes
		n = verifrt.U32("n")
		verifrt.Assume(n > 0xffffffff/48)
	}
	stack := []uint64{uint64(verifrt.U32("in")), uint64(verifrt.U32("out")), uint64(n), uint64(verifrt.U32("nevents"))}
	verifCallWasi(pollOneoff, mod, stack)
	verifrt.Assert(stack[0] != 0, "a subscription array that cannot fit in memory is refused")
	verifrt.Cover("refused")
}

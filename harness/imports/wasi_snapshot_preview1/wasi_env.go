//go:build verif

package wasi_snapshot_preview1

import (
	"context"
	"io/fs"

	"github.com/tetratelabs/wazero/api"
	"github.com/tetratelabs/wazero/experimental"
	experimentalsys "github.com/tetratelabs/wazero/experimental/sys"
	internalsys "github.com/tetratelabs/wazero/internal/sys"
	"github.com/tetratelabs/wazero/internal/verifrt"
	"github.com/tetratelabs/wazero/internal/wasm"
	"github.com/tetratelabs/wazero/sys"
)

// verifNondetFS is an environment stub: a file system whose every answer is arbitrary within the documented contract
// of experimental/sys.FS and sys.File (counts never exceed the buffer, errno is any value).
type verifNondetFS struct {
	experimentalsys.UnimplementedFS
	n int
}

func (f *verifNondetFS) tag(s string) string {
	f.n++
	return s + string([]byte{'0' + byte(f.n%10)})
}

func (f *verifNondetFS) errno(what string) experimentalsys.Errno {
	verifrt.Stub("sys.FS/File " + what + ": arbitrary errno")
	if verifrt.Bool(f.tag(what + ".fails")) {
		return experimentalsys.EIO
	}
	return 0
}

func (f *verifNondetFS) OpenFile(path string, flag experimentalsys.Oflag, perm fs.FileMode) (experimentalsys.File, experimentalsys.Errno) {
	if path == "." {
		// the mount's own root opens (lazyDir treats any failure but ENOENT as unexpected and panics: an
		// environment fault, not a guest-controlled input; noted in DESIGN.md)
		return &verifNondetFile{fs: f, dir: true}, 0
	}
	if e := f.errno("OpenFile"); e != 0 {
		return nil, e
	}
	return &verifNondetFile{fs: f, dir: verifrt.Bool(f.tag("open.isdir"))}, 0
}
func (f *verifNondetFS) Stat(string) (sys.Stat_t, experimentalsys.Errno)  { return f.stat() }
func (f *verifNondetFS) Lstat(string) (sys.Stat_t, experimentalsys.Errno) { return f.stat() }
func (f *verifNondetFS) stat() (sys.Stat_t, experimentalsys.Errno) {
	if e := f.errno("Stat"); e != 0 {
		return sys.Stat_t{}, e
	}
	// sizes, inode and times are arbitrary; the file type is a directory or a regular file (one path each)
	mode := fs.FileMode(0o644)
	if verifrt.Choose(f.tag("stat.isdir"), 2) == 1 {
		mode = fs.ModeDir | 0o755
	}
	return sys.Stat_t{Size: verifrt.I64(f.tag("stat.size")), Ino: sys.Inode(verifrt.U64(f.tag("stat.ino"))), Mode: mode,
		Atim: verifrt.I64(f.tag("stat.atim")), Mtim: verifrt.I64(f.tag("stat.mtim")), Nlink: verifrt.U64(f.tag("stat.nlink"))}, 0
}
func (f *verifNondetFS) Mkdir(string, fs.FileMode) experimentalsys.Errno    { return f.errno("Mkdir") }
func (f *verifNondetFS) Chmod(string, fs.FileMode) experimentalsys.Errno    { return f.errno("Chmod") }
func (f *verifNondetFS) Rename(string, string) experimentalsys.Errno        { return f.errno("Rename") }
func (f *verifNondetFS) Rmdir(string) experimentalsys.Errno                 { return f.errno("Rmdir") }
func (f *verifNondetFS) Unlink(string) experimentalsys.Errno                { return f.errno("Unlink") }
func (f *verifNondetFS) Link(string, string) experimentalsys.Errno          { return f.errno("Link") }
func (f *verifNondetFS) Symlink(string, string) experimentalsys.Errno       { return f.errno("Symlink") }
func (f *verifNondetFS) Utimens(string, int64, int64) experimentalsys.Errno { return f.errno("Utimens") }
func (f *verifNondetFS) Readlink(string) (string, experimentalsys.Errno) {
	if e := f.errno("Readlink"); e != 0 {
		return "", e
	}
	return verifrt.String(f.tag("readlink"), verifrt.Choose(f.tag("readlink.len"), 3)), 0
}

type verifNondetFile struct {
	experimentalsys.UnimplementedFile
	fs     *verifNondetFS
	dir    bool
	closed int
}

func (f *verifNondetFile) count(what string, max int) (int, experimentalsys.Errno) {
	if e := f.fs.errno(what); e != 0 {
		return 0, e
	}
	n := verifrt.Int(f.fs.tag(what + ".n"))
	verifrt.Assume(n >= 0 && n <= max) // contract: never more than the buffer
	return n, 0
}
func (f *verifNondetFile) Dev() (uint64, experimentalsys.Errno)    { return verifrt.U64(f.fs.tag("dev")), f.fs.errno("Dev") }
func (f *verifNondetFile) Ino() (sys.Inode, experimentalsys.Errno) { return sys.Inode(verifrt.U64(f.fs.tag("ino"))), f.fs.errno("Ino") }
func (f *verifNondetFile) IsDir() (bool, experimentalsys.Errno)    { return f.dir, f.fs.errno("IsDir") }
func (f *verifNondetFile) IsAppend() bool                          { return verifrt.Bool(f.fs.tag("isappend")) }
func (f *verifNondetFile) SetAppend(bool) experimentalsys.Errno    { return f.fs.errno("SetAppend") }
func (f *verifNondetFile) Stat() (sys.Stat_t, experimentalsys.Errno) { return f.fs.stat() }
func (f *verifNondetFile) Read(b []byte) (int, experimentalsys.Errno)          { return f.count("Read", len(b)) }
func (f *verifNondetFile) Pread(b []byte, _ int64) (int, experimentalsys.Errno) { return f.count("Pread", len(b)) }
func (f *verifNondetFile) Write(b []byte) (int, experimentalsys.Errno)         { return f.count("Write", len(b)) }
func (f *verifNondetFile) Pwrite(b []byte, _ int64) (int, experimentalsys.Errno) { return f.count("Pwrite", len(b)) }
func (f *verifNondetFile) Seek(int64, int) (int64, experimentalsys.Errno) {
	return verifrt.I64(f.fs.tag("seek")), f.fs.errno("Seek")
}
func (f *verifNondetFile) Readdir(n int) ([]experimentalsys.Dirent, experimentalsys.Errno) {
	if e := f.fs.errno("Readdir"); e != 0 {
		return nil, e
	}
	max := 2
	if verifDeep {
		max = 3
	}
	k := verifrt.Choose(f.fs.tag("readdir.k"), max)
	if n >= 0 && k > n {
		k = n
	}
	var out []experimentalsys.Dirent
	for i := 0; i < k; i++ {
		out = append(out, experimentalsys.Dirent{Ino: sys.Inode(verifrt.U64(f.fs.tag("dirent.ino"))),
			Name: verifrt.String(f.fs.tag("dirent.name"), 1+verifrt.Choose(f.fs.tag("dirent.len"), 2)), Type: []fs.FileMode{0, fs.ModeDir}[verifrt.Choose(f.fs.tag("dirent.isdir"), 2)]})
	}
	return out, 0
}
func (f *verifNondetFile) Truncate(int64) experimentalsys.Errno       { return f.fs.errno("Truncate") }
func (f *verifNondetFile) Sync() experimentalsys.Errno                { return f.fs.errno("Sync") }
func (f *verifNondetFile) Datasync() experimentalsys.Errno            { return f.fs.errno("Datasync") }
func (f *verifNondetFile) Utimens(int64, int64) experimentalsys.Errno { return f.fs.errno("Utimens") }
func (f *verifNondetFile) Close() experimentalsys.Errno               { f.closed++; return f.fs.errno("Close") }

// verifWasiModule: a module instance with an arbitrary memory of 0..65536 pages, the default system context plus one
// preopened nondeterministic file system at "/" (fd 3) and one already-open regular file (fd 4) and directory (fd 5).
func verifWasiModule(fsys experimentalsys.FS) (*wasm.ModuleInstance, uint64) {
	pages := verifrt.U32("pages")
	verifrt.Assume(pages <= 65536)
	size := uint64(pages) << 16
	mem := &wasm.MemoryInstance{Buffer: verifrt.Bytes("mem", size), Min: 0, Cap: pages, Max: 65536}
	sysCtx, err := internalsys.NewContext(0, nil, nil, nil, nil, nil, nil, nil, 0, nil, 0, nil, nil, []experimentalsys.FS{fsys}, []string{"/"}, nil)
	if err != nil {
		panic(err)
	}
	fsc := sysCtx.FS()
	if nf, ok := fsys.(*verifNondetFS); ok {
		fsc.OpenFile(fsys, "file", 0, 0)
		fsc.OpenFile(fsys, "dir", 0, 0)
		_ = nf
	}
	// a real instance registered in a real store (closing it goes through the registry), over a stub engine
	store := wasm.NewStore(api.CoreFeaturesV2, &verifEngine{})
	inst, err := store.Instantiate(context.Background(), &wasm.Module{}, "wasi-guest", sysCtx, nil)
	if err != nil {
		panic(err)
	}
	inst.MemoryInstance = mem
	return inst, size
}

type verifEngine struct{}

func (e *verifEngine) Close() error { return nil }
func (e *verifEngine) CompileModule(context.Context, *wasm.Module, []experimental.FunctionListener, bool) error {
	return nil
}
func (e *verifEngine) CompiledModuleCount() uint32       { return 0 }
func (e *verifEngine) DeleteCompiledModule(*wasm.Module) {}
func (e *verifEngine) NewModuleEngine(*wasm.Module, *wasm.ModuleInstance) (wasm.ModuleEngine, error) {
	return &verifModuleEngine{}, nil
}

type verifModuleEngine struct{}

func (e *verifModuleEngine) DoneInstantiation()                                                  {}
func (e *verifModuleEngine) NewFunction(wasm.Index) api.Function                                 { return nil }
func (e *verifModuleEngine) ResolveImportedFunction(_, _, _ wasm.Index, _ wasm.ModuleEngine)     {}
func (e *verifModuleEngine) ResolveImportedMemory(wasm.ModuleEngine)                             {}
func (e *verifModuleEngine) LookupFunction(*wasm.TableInstance, wasm.FunctionTypeID, wasm.Index) (*wasm.ModuleInstance, wasm.Index) {
	return nil, 0
}
func (e *verifModuleEngine) GetGlobalValue(wasm.Index) (uint64, uint64)          { return 0, 0 }
func (e *verifModuleEngine) SetGlobalValue(wasm.Index, uint64, uint64)           {}
func (e *verifModuleEngine) OwnsGlobals() bool                                   { return false }
func (e *verifModuleEngine) FunctionInstanceReference(wasm.Index) wasm.Reference { return 0 }
func (e *verifModuleEngine) MemoryGrown()                                        {}

var verifWasiFuncs = []*wasm.HostFunc{argsGet, argsSizesGet, environGet, environSizesGet, clockResGet, clockTimeGet, fdAdvise, fdAllocate, fdClose,
	fdDatasync, fdFdstatGet, fdFdstatSetFlags, fdFdstatSetRights, fdFilestatGet, fdFilestatSetSize, fdFilestatSetTimes, fdPread, fdPrestatGet,
	fdPrestatDirName, fdPwrite, fdRead, fdReaddir, fdRenumber, fdSeek, fdSync, fdTell, fdWrite, pathCreateDirectory, pathFilestatGet,
	pathFilestatSetTimes, pathLink, pathOpen, pathReadlink, pathRemoveDirectory, pathRename, pathSymlink, pathUnlinkFile, pollOneoff, procExit,
	procRaise, schedYield, randomGet, sockAccept, sockRecv, sockSend, sockShutdown}

func verifCallWasi(hf *wasm.HostFunc, mod api.Module, stack []uint64) (exit *sys.ExitError) {
	defer func() {
		if r := recover(); r != nil {
			if e, ok := r.(*sys.ExitError); ok {
				exit = e // proc_exit: the documented way to end the guest
				return
			}
			panic(r)
		}
	}()
	hf.Code.GoFunc.(api.GoModuleFunction).Call(context.Background(), mod, stack)
	return nil
}

//go:build verif

package binary

import (
	"bytes"

	"github.com/tetratelabs/wazero/internal/verifrt"
	"github.com/tetratelabs/wazero/internal/wasm"
)

// VerifC03_DecodeCodeEntry: one entry of the code section - [size][#local declarations]([count][type])*[body...] - with an
// ARBITRARY declared size (0..15), 0..2 local declarations with arbitrary counts (0..3) and type bytes, and 0..2 body
// bytes: decodeCode returns a value or an error, never a Go run-time panic (a declared size smaller than what the local
// declarations occupy must be an error), and when it succeeds the body it returns has the declared length minus the
// bytes of the declarations.
//verif:opts split=decls:3 maxpaths=100000 wall=600
func VerifC03_DecodeCodeEntry() {
	size := verifrt.U8("size")
	verifrt.Assume(size < 16)
	nd := verifrt.Choose("decls", 3)
	buf := []byte{size, byte(nd)}
	names := []string{"0", "1"}
	for i := 0; i < nd; i++ {
		cnt := verifrt.U8("count" + names[i])
		verifrt.Assume(cnt < 4)
		buf = append(buf, cnt, verifrt.U8("type"+names[i]))
	}
	nb := verifrt.Choose("body", 3)
	tail := []byte{0x01, 0x0b}
	buf = append(buf, tail[2-nb:]...)
	code := &wasm.Code{}
	err := decodeCode(bytes.NewReader(buf), 0, code)
	if err == nil {
		verifrt.Assert(len(code.Body) == int(size)-(1+2*nd), "the body is what remains of the declared size after the local declarations")
		verifrt.Cover("accepted")
	} else {
		verifrt.Cover("rejected")
	}
}

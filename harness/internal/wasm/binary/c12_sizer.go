//go:build verif

package binary

import (
	"github.com/tetratelabs/wazero/internal/verifrt"
	"github.com/tetratelabs/wazero/internal/wasm"
)

// VerifC12_MemorySizer: whether capacity is pre-allocated from the maximum is a performance choice: for every
// declared (min, optional max) and every configured limit the module is accepted or rejected alike, with the same
// min and max, and min <= cap <= max whenever accepted.
func VerifC12_MemorySizer() {
	limit := verifrt.U32("limit")
	verifrt.Assume(limit <= 65536)
	min, maxV := verifrt.U32("min"), verifrt.U32("max")
	var maxP *uint32
	if verifrt.Bool("hasMax") {
		maxP = &maxV
	}
	min0, cap0, max0 := newMemorySizer(limit, false)(min, maxP)
	min1, cap1, max1 := newMemorySizer(limit, true)(min, maxP)
	m0 := &wasm.Memory{Min: min0, Cap: cap0, Max: max0, IsMaxEncoded: maxP != nil}
	m1 := &wasm.Memory{Min: min1, Cap: cap1, Max: max1, IsMaxEncoded: maxP != nil}
	e0, e1 := m0.Validate(limit), m1.Validate(limit)
	verifrt.Assert((e0 == nil) == (e1 == nil), "memoryCapacityFromMax does not change which memories are accepted")
	if e0 == nil && e1 == nil {
		verifrt.Assert(min0 == min1 && max0 == max1, "memoryCapacityFromMax does not change min or max")
		verifrt.Assert(min0 <= cap0 && cap0 <= max0 && min1 <= cap1 && cap1 <= max1 && max0 <= limit, "min <= cap <= max <= limit")
		verifrt.Cover("accepted")
	}
	if e0 != nil {
		verifrt.Cover("rejected")
	}
}

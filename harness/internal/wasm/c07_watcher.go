//go:build verif

package wasm

import (
	"context"
	"errors"
	"time"

	"github.com/tetratelabs/wazero/api"
	"github.com/tetratelabs/wazero/internal/verifrt"
	"github.com/tetratelabs/wazero/sys"
)

var errVerifCause = errors.New("verif: custom cause")

// verifWatchCtx is a done context with a custom cause, as context.WithTimeoutCause / WithDeadlineCause produce once the
// deadline passed: Err() is the standard error, context.Cause(ctx) the custom one.
type verifWatchCtx struct {
	context.Context
	ch  chan struct{}
	err error
}

func (c *verifWatchCtx) Deadline() (time.Time, bool) { return time.Time{}, false }
func (c *verifWatchCtx) Done() <-chan struct{}       { return c.ch }
func (c *verifWatchCtx) Err() error                  { return c.err }

// VerifC07_WatcherClassifiesDoneContext: the watcher that closes a module when its call's context becomes done (run here
// synchronously on a context that is done, with the call still in flight: its stop channel open) classifies EVERY kind
// of done context by the context's error - cancelled or past its deadline, with or without a custom cause attached
// (WithCancelCause / WithTimeoutCause) - and sets the closed word with the exit code of that cause, which is what the
// checks compiled into loops poll.
func VerifC07_WatcherClassifiesDoneContext() {
	bg := context.Background()
	var ctx context.Context
	var want uint32
	switch verifrt.Choose("kind", 5) {
	case 0:
		c, cancel := context.WithCancel(bg)
		cancel()
		ctx, want = c, sys.ExitCodeContextCanceled
	case 1: // cancelled with an explicit cause: Err() is context.Canceled, Cause() is the custom error
		c, cancel := context.WithCancelCause(bg)
		cancel(errVerifCause)
		ctx, want = c, sys.ExitCodeContextCanceled
	case 2: // derived from a context cancelled with a cause
		p, cancel := context.WithCancelCause(bg)
		c, cancel2 := context.WithCancel(p)
		cancel(errVerifCause)
		_ = cancel2
		ctx, want = c, sys.ExitCodeContextCanceled
	case 3:
		ch := make(chan struct{})
		close(ch)
		ctx, want = &verifWatchCtx{Context: bg, ch: ch, err: context.DeadlineExceeded}, sys.ExitCodeDeadlineExceeded
	case 4:
		ch := make(chan struct{})
		close(ch)
		ctx, want = &verifWatchCtx{Context: bg, ch: ch, err: context.Canceled}, sys.ExitCodeContextCanceled
	}
	s := NewStore(api.CoreFeaturesV2, &verifEngine{})
	m, err := s.Instantiate(bg, &Module{}, "m", nil, nil)
	verifrt.Assert(err == nil && m != nil, "module instantiates")
	if err != nil {
		return
	}
	stop := make(chan struct{}) // the call is still in flight: never closed here
	m.closeModuleOnCanceledOrTimeout(ctx, stop)
	closed := m.Closed.Load()
	verifrt.Assert(closed != 0, "the watcher marks the module closed once the call's context is done")
	verifrt.Assert(uint32(closed>>32) == want, "the exit code stored by the watcher is the one of the context's error")
	verifrt.Cover("watched")
}

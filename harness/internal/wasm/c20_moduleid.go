//go:build verif

package wasm

import (
	"context"

	"github.com/tetratelabs/wazero/api"
	"github.com/tetratelabs/wazero/experimental"
	"github.com/tetratelabs/wazero/internal/verifrt"
)

type verifListener struct{}

func (verifListener) Before(context.Context, api.Module, api.FunctionDefinition, []uint64, experimental.StackIterator) {
}
func (verifListener) After(context.Context, api.Module, api.FunctionDefinition, []uint64)      {}
func (verifListener) Abort(context.Context, api.Module, api.FunctionDefinition, error)         {}

func verifListeners(tag string, n int) ([]experimental.FunctionListener, uint32) {
	bits := verifrt.U32(tag)
	ls := make([]experimental.FunctionListener, n)
	for i := range ls {
		ls[i] = verifrt.MaybeNil[experimental.FunctionListener](verifListener{}, bits&(1<<uint(i)) == 0)
	}
	return ls, bits & (1<<uint(n) - 1)
}

// VerifC20_ModuleIDCoversListeners: the module identity is the key of the compiled-module caches of both engines, and
// compiled code embeds which functions have a listener and whether termination checks are compiled in. For one binary with
// 1..18 functions and ANY two listener subsets and termination settings: if the two identities are equal then the subsets
// and the setting are equal (otherwise a second compilation would silently reuse code with the wrong listener set).
// Decided on the byte stream fed to SHA-256 (recorded by the digest model); SHA-256 itself is assumed collision-free.
func VerifC20_ModuleIDCoversListeners() {
	n := 1 + verifrt.Choose("funcs", 18)
	bin := []byte{0x00, 0x61, 0x73, 0x6d, 0x01, 0x00, 0x00, 0x00}
	la, ba := verifListeners("la", n)
	lb, bb := verifListeners("lb", n)
	ta, tb := verifrt.Bool("ta"), verifrt.Bool("tb")
	m1, m2 := &Module{}, &Module{}
	verifrt.ResetHashLog()
	verifrt.SkipDigest = verifrt.Symbolic()
	m1.AssignModuleID(bin, la, ta)
	m2.AssignModuleID(bin, lb, tb)
	var same bool
	if verifrt.Symbolic() {
		if len(verifrt.HashLog) != 2 {
			verifrt.Assert(false, "the identity is a SHA-256 digest (one per AssignModuleID)")
			return
		}
		x, y := verifrt.HashLog[0], verifrt.HashLog[1]
		same = len(x) == len(y)
		for i := 0; len(x) == len(y) && i < len(x); i++ {
			same = verifrt.And(same, x[i] == y[i])
		}
	} else {
		same = m1.ID == m2.ID
	}
	verifrt.Assert(!same || (ba == bb && ta == tb), "two compilations of one binary with different listener sets or termination settings never share a module identity")
	verifrt.Cover("ids")
}

//go:build verif

package wasm

import (
	"context"

	"github.com/tetratelabs/wazero/api"
	"github.com/tetratelabs/wazero/experimental"
	"github.com/tetratelabs/wazero/internal/verifrt"
)

type verifEngine struct{ closed bool }

func (e *verifEngine) Close() error { e.closed = true; return nil }
func (e *verifEngine) CompileModule(context.Context, *Module, []experimental.FunctionListener, bool) error {
	return nil
}
func (e *verifEngine) CompiledModuleCount() uint32 { return 0 }
func (e *verifEngine) DeleteCompiledModule(*Module)  {}
func (e *verifEngine) NewModuleEngine(*Module, *ModuleInstance) (ModuleEngine, error) {
	return &verifEngineStub{}, nil
}

type verifNotifier struct{ n int }

func (c *verifNotifier) CloseNotify(context.Context, uint32) { c.n++ }

var verifNames = []string{"", "a", "b"}

// ghost registry: what an atomic name->module map would hold
type verifGhost struct {
	mods  []*ModuleInstance // every instance ever created, in creation order
	open  []bool
	owner map[string]*ModuleInstance
	notes []*verifNotifier
}

// verifCheckRegistry: representation invariant + agreement with the ghost.
func verifCheckRegistry(s *Store, g *verifGhost, closed bool) {
	if closed {
		verifrt.Assert(s.nameToModule == nil && s.moduleList == nil, "closed store holds nothing")
		for _, n := range verifNames[1:] {
			verifrt.Assert(s.Module(n) == nil, "lookup after runtime close finds nothing")
		}
		return
	}
	// lookups return exactly the open owner
	for _, n := range verifNames[1:] {
		verifrt.Assert(s.Module(n) == g.owner[n], "lookup returns the open module owning the name, else nothing")
	}
	// the list holds exactly the open registered instances, doubly linked
	cnt := 0
	var prev *ModuleInstance
	for m := s.moduleList; m != nil; m = m.next {
		verifrt.Assert(m.prev == prev, "module list is doubly linked")
		found := false
		for i, x := range g.mods {
			if x == m {
				found = g.open[i]
			}
		}
		verifrt.Assert(found, "module list holds only open registered instances")
		prev = m
		cnt++
		if cnt > 8 {
			verifrt.Assert(false, "module list is acyclic")
			return
		}
	}
	want := 0
	for i := range g.mods {
		if g.open[i] {
			want++
		}
	}
	verifrt.Assert(cnt == want, "module list holds every open registered instance")
}

func verifInstantiate(s *Store, g *verifGhost, name string) {
	m, err := s.Instantiate(context.Background(), &Module{}, name, nil, nil)
	wantErr := name != "" && g.owner[name] != nil
	verifrt.Assert((err != nil) == wantErr, "instantiate fails exactly when an open module owns the name")
	if err == nil {
		note := &verifNotifier{}
		m.CloseNotifier = note
		g.mods, g.open, g.notes = append(g.mods, m), append(g.open, true), append(g.notes, note)
		if name != "" {
			g.owner[name] = m
		}
	}
}

// VerifC10_Registry: arbitrary history of 0..3 instantiations (names from {"", a, b}, duplicates allowed and
// expected to fail), then two arbitrary operations; after each, the registry invariant and the ghost agree.
//verif:opts maxpaths=60000 wall=900
func VerifC10_Registry() {
	s := NewStore(api.CoreFeaturesV2, &verifEngine{})
	g := &verifGhost{owner: map[string]*ModuleInstance{}}
	n := verifrt.Choose("hist", 4)
	for i := 0; i < n; i++ {
		verifInstantiate(s, g, verifNames[verifrt.Choose("hname", 3)])
	}
	verifCheckRegistry(s, g, false)
	storeClosed := false
	for step := 0; step < 2; step++ {
		switch verifrt.Choose("op", 4) {
		case 0: // instantiate (possibly under a taken name)
			if storeClosed {
				_, err := s.Instantiate(context.Background(), &Module{}, verifNames[verifrt.Choose("name", 3)], nil, nil)
				verifrt.Assert(err != nil, "instantiate after runtime close fails with an error")
				verifrt.Cover("instantiate-after-close")
			} else {
				verifInstantiate(s, g, verifNames[verifrt.Choose("name", 3)])
			}
		case 1: // close one instance (idempotent)
			if len(g.mods) == 0 {
				verifrt.Assume(false)
			}
			i := verifrt.Choose("which", len(g.mods))
			m := g.mods[i]
			err := m.CloseWithExitCode(context.Background(), verifrt.U32("code"))
			verifrt.Assert(err == nil, "close succeeds")
			if g.open[i] {
				g.open[i] = false
				if m.ModuleName != "" && g.owner[m.ModuleName] == m {
					delete(g.owner, m.ModuleName)
				}
			}
			verifrt.Assert(m.IsClosed() && g.notes[i].n == 1, "close notification fired exactly once")
			verifrt.Cover("closed-one")
		case 2: // close the runtime's store
			err := s.CloseWithExitCode(context.Background(), verifrt.U32("code"))
			verifrt.Assert(err == nil, "store close succeeds")
			for i := range g.mods {
				g.open[i] = false
				verifrt.Assert(g.mods[i].IsClosed() && g.notes[i].n == 1, "runtime close closes every module, notifying once")
			}
			g.owner = map[string]*ModuleInstance{}
			storeClosed = true
			verifrt.Cover("closed-store")
		case 3: // function type registration (what compiling a host module does)
			_, err := s.GetFunctionTypeIDs([]FunctionType{{}})
			verifrt.Assert(!storeClosed || err != nil, "type registration after runtime close fails with an error")
			verifrt.Cover("typeids")
		}
		verifCheckRegistry(s, g, storeClosed)
	}
}

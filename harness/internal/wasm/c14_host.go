//go:build verif

package wasm

import "github.com/tetratelabs/wazero/internal/verifrt"

func verifMem() (*MemoryInstance, uint64) {
	pages := verifrt.U32("pages")
	verifrt.Assume(pages <= 65536)
	size := uint64(pages) << 16
	return &MemoryInstance{Buffer: verifrt.Bytes("mem", size), Min: 0, Cap: pages, Max: 65536}, size
}

// VerifC14_HostRead: Read(off,n) succeeds iff off+n <= size, never panics, returns the addressed bytes.
func VerifC14_HostRead() {
	m, size := verifMem()
	off, n := verifrt.U32("off"), verifrt.U32("n")
	b, ok := m.Read(off, n)
	verifrt.Assert(ok == (uint64(off)+uint64(n) <= size), "Read ok iff offset+length within size")
	if ok {
		verifrt.Assert(uint32(len(b)) == n, "Read returns n bytes")
		if n > 0 {
			i := verifrt.U32("i")
			verifrt.Assume(i < n)
			verifrt.Assert(b[i] == verifrt.Initial(m.Buffer, uint64(off)+uint64(i)), "Read returns the addressed bytes")
		}
		verifrt.Cover("read-ok")
	} else {
		verifrt.Cover("read-refused")
	}
}

//go:build verif

package wasm

import (
	"math"

	"github.com/tetratelabs/wazero/api"
	"github.com/tetratelabs/wazero/internal/verifrt"
)

// verifMem: an arbitrary memory of 0..65536 pages with arbitrary contents.
func verifMem() (*MemoryInstance, uint64) {
	pages := verifrt.U32("pages")
	verifrt.Assume(pages <= 65536)
	size := uint64(pages) << 16
	// the buffer may have spare capacity (capacity-from-max, shared memories, earlier growth)
	capPages := verifrt.U32("capPages")
	verifrt.Assume(capPages >= pages && capPages <= 65536)
	return &MemoryInstance{Buffer: verifrt.Bytes("mem", uint64(capPages)<<16)[:size], Min: 0, Cap: capPages, Max: 65536}, size
}

// VerifC14_HostRead: Read(off,n) succeeds iff off+n <= size, never panics, returns the addressed bytes.
func VerifC14_HostRead() {
	m, size := verifMem()
	off, n := verifrt.U32("off"), verifrt.U32("n")
	b, ok := m.Read(off, n)
	verifrt.Assert(ok == (uint64(off)+uint64(n) <= size), "Read ok iff offset+length within size")
	if ok {
		verifrt.Assert(uint32(len(b)) == n, "Read returns n bytes")
		verifrt.Assert(uint64(off)+uint64(cap(b)) <= size, "the returned view cannot reach beyond the current memory size (no spare capacity is exposed)")
		if n > 0 {
			i := verifrt.U32("i")
			verifrt.Assume(i < n)
			verifrt.Assert(b[i] == verifrt.Initial(m.Buffer, uint64(off)+uint64(i)), "Read returns the addressed bytes")
		}
		verifrt.Cover("read-ok")
	} else {
		verifrt.Cover("read-refused")
	}
}

func leAt(m *MemoryInstance, off uint64, n int) uint64 {
	var v uint64
	for i := 0; i < n; i++ {
		v |= uint64(verifrt.Initial(m.Buffer, off+uint64(i))) << (8 * uint(i))
	}
	return v
}

// VerifC14_HostReadScalars: every fixed-width reader succeeds iff off+width <= size and returns the little-endian value.
func VerifC14_HostReadScalars() {
	m, size := verifMem()
	off := verifrt.U32("off")
	switch verifrt.Choose("kind", 7) {
	case 0:
		v, ok := m.ReadByte(off)
		verifrt.Assert(ok == (uint64(off)+1 <= size), "ReadByte ok iff in range")
		if ok {
			verifrt.Assert(uint64(v) == leAt(m, uint64(off), 1), "ReadByte value")
			verifrt.Cover("byte")
		}
	case 1:
		v, ok := m.ReadUint16Le(off)
		verifrt.Assert(ok == (uint64(off)+2 <= size), "ReadUint16Le ok iff in range")
		if ok {
			verifrt.Assert(uint64(v) == leAt(m, uint64(off), 2), "ReadUint16Le value")
			verifrt.Cover("u16")
		}
	case 2:
		v, ok := m.ReadUint32Le(off)
		verifrt.Assert(ok == (uint64(off)+4 <= size), "ReadUint32Le ok iff in range")
		if ok {
			verifrt.Assert(uint64(v) == leAt(m, uint64(off), 4), "ReadUint32Le value")
			verifrt.Cover("u32")
		}
	case 3:
		v, ok := m.ReadUint64Le(off)
		verifrt.Assert(ok == (uint64(off)+8 <= size), "ReadUint64Le ok iff in range")
		if ok {
			verifrt.Assert(v == leAt(m, uint64(off), 8), "ReadUint64Le value")
			verifrt.Cover("u64")
		}
	case 4:
		v, ok := m.ReadFloat32Le(off)
		verifrt.Assert(ok == (uint64(off)+4 <= size), "ReadFloat32Le ok iff in range")
		if ok {
			verifrt.Assert(uint64(math.Float32bits(v)) == leAt(m, uint64(off), 4), "ReadFloat32Le bits")
			verifrt.Cover("f32")
		}
	case 5:
		v, ok := m.ReadFloat64Le(off)
		verifrt.Assert(ok == (uint64(off)+8 <= size), "ReadFloat64Le ok iff in range")
		if ok {
			verifrt.Assert(math.Float64bits(v) == leAt(m, uint64(off), 8), "ReadFloat64Le bits")
			verifrt.Cover("f64")
		}
	case 6:
		verifrt.Assert(uint64(m.Pages())<<16 == size, "Pages reports the size")
		verifrt.Assert(size == 1<<32 || uint64(m.Size()) == size, "Size reports the size below 4GiB")
		verifrt.Cover("size")
	}
}

// VerifC14_HostWriteScalars: every fixed-width writer succeeds iff off+width <= size, writes exactly the addressed bytes.
func VerifC14_HostWriteScalars() {
	m, size := verifMem()
	off := verifrt.U32("off")
	val := verifrt.U64("val")
	probe := verifrt.U64("probe") // an arbitrary other byte of the memory
	verifrt.Assume(probe < size)
	var w uint64
	var ok bool
	switch verifrt.Choose("kind", 6) {
	case 0:
		w, ok = 1, m.WriteByte(off, byte(val))
	case 1:
		w, ok = 2, m.WriteUint16Le(off, uint16(val))
	case 2:
		w, ok = 4, m.WriteUint32Le(off, uint32(val))
	case 3:
		w, ok = 8, m.WriteUint64Le(off, val)
	case 4:
		w, ok = 4, m.WriteFloat32Le(off, math.Float32frombits(uint32(val)))
	case 5:
		w, ok = 8, m.WriteFloat64Le(off, math.Float64frombits(val))
	}
	verifrt.Assert(ok == (uint64(off)+w <= size), "write ok iff offset+width within size")
	if ok {
		k := uint64(verifrt.Choose("k", 8)) // byte of the value, concrete so that the shift is by a constant
		if k < w {
			verifrt.Assert(m.Buffer[uint64(off)+k] == byte(val>>(8*k)), "written byte is the little-endian byte of the value")
			verifrt.Cover("inside")
		}
	}
	if !(ok && probe >= uint64(off) && probe < uint64(off)+w) {
		verifrt.Assert(m.Buffer[probe] == verifrt.Initial(m.Buffer, probe), "bytes outside the addressed range are unchanged (all bytes when refused)")
		verifrt.Cover("outside")
	}
}

// VerifC14_HostWriteBytes: Write / WriteString with an arbitrary source length.
func VerifC14_HostWriteBytes() {
	m, size := verifMem()
	off := verifrt.U32("off")
	n := verifrt.U32("n")
	verifrt.Assume(n <= 1<<20) // source buffer bound (the length check is uniform in n)
	src := verifrt.Bytes("src", uint64(n))
	probe := verifrt.U64("probe")
	verifrt.Assume(probe < size)
	ok := m.Write(off, src)
	verifrt.Assert(ok == (uint64(off)+uint64(n) <= size), "Write ok iff offset+length within size")
	if ok && probe >= uint64(off) && probe < uint64(off)+uint64(n) {
		verifrt.Assert(m.Buffer[probe] == verifrt.Initial(src, probe-uint64(off)), "Write copies the source bytes")
		verifrt.Cover("inside")
	} else {
		verifrt.Assert(m.Buffer[probe] == verifrt.Initial(m.Buffer, probe), "Write leaves other bytes unchanged")
		verifrt.Cover("outside")
	}
}

// VerifC14_HostWriteString: strings of 0..3 bytes.
func VerifC14_HostWriteString() {
	m, size := verifMem()
	off := verifrt.U32("off")
	n := verifrt.Choose("len", 4)
	s := verifrt.String("s", n)
	probe := verifrt.U64("probe")
	verifrt.Assume(probe < size)
	ok := m.WriteString(off, s)
	verifrt.Assert(ok == (uint64(off)+uint64(n) <= size), "WriteString ok iff offset+length within size")
	if ok && probe >= uint64(off) && probe < uint64(off)+uint64(n) {
		verifrt.Assert(m.Buffer[probe] == s[probe-uint64(off)], "WriteString copies the bytes")
		verifrt.Cover("inside")
	} else {
		verifrt.Assert(m.Buffer[probe] == verifrt.Initial(m.Buffer, probe), "WriteString leaves other bytes unchanged")
		verifrt.Cover("outside")
	}
}

// ---- growth

type verifEngineStub struct{ grown int }

func (e *verifEngineStub) DoneInstantiation()                                        {}
func (e *verifEngineStub) NewFunction(Index) api.Function                            { return nil }
func (e *verifEngineStub) ResolveImportedFunction(_, _, _ Index, _ ModuleEngine)     {}
func (e *verifEngineStub) ResolveImportedMemory(ModuleEngine)                        {}
func (e *verifEngineStub) LookupFunction(*TableInstance, FunctionTypeID, Index) (*ModuleInstance, Index) {
	return nil, 0
}
func (e *verifEngineStub) GetGlobalValue(Index) (uint64, uint64) { return 0, 0 }
func (e *verifEngineStub) SetGlobalValue(Index, uint64, uint64)  {}
func (e *verifEngineStub) OwnsGlobals() bool                     { return false }
func (e *verifEngineStub) FunctionInstanceReference(Index) Reference { return 0 }
func (e *verifEngineStub) MemoryGrown()                          { e.grown++ }

// VerifC14_Grow: one Grow from an arbitrary state satisfying the size invariant (non-shared, default allocator).
func VerifC14_Grow() {
	pages, cp, max := verifrt.U32("pages"), verifrt.U32("cap"), verifrt.U32("max")
	verifrt.Assume(pages <= cp && cp <= max && max <= 65536) // representation invariant
	eng := &verifEngineStub{}
	buf := verifrt.Bytes("mem", uint64(cp)<<16)
	m := &MemoryInstance{Buffer: buf[:uint64(pages)<<16], Min: 0, Cap: cp, Max: max, ownerModuleEngine: eng}
	delta := verifrt.U32("delta")
	probe := verifrt.U64("probe")

	res, ok := m.Grow(delta)

	want := uint64(pages)+uint64(delta) <= uint64(max)
	verifrt.Assert(ok == want, "Grow succeeds iff pages+delta <= max")
	if !ok {
		verifrt.Assert(uint64(len(m.Buffer)) == uint64(pages)<<16, "failed Grow leaves the size unchanged")
		verifrt.Cover("refused")
		return
	}
	verifrt.Assert(res == pages, "Grow returns the previous size")
	newPages := pages + delta
	verifrt.Assert(uint64(len(m.Buffer)) == uint64(newPages)<<16, "size after Grow is pages+delta")
	verifrt.Assert(m.Pages() == newPages, "Pages reports the new size")
	verifrt.Assert(m.Cap >= newPages && uint64(cap(m.Buffer)) >= uint64(len(m.Buffer)), "capacity covers the size")
	verifrt.Assert(delta == 0 || eng.grown == 1, "engine is told about growth")
	verifrt.Assume(probe < uint64(newPages)<<16)
	if probe < uint64(pages)<<16 {
		verifrt.Assert(m.Buffer[probe] == verifrt.Initial(buf, probe), "Grow preserves existing contents")
		verifrt.Cover("old")
	} else {
		// capacity beyond the length is zero in every reachable state (make zero-fills, memories never shrink)
		verifrt.Assume(probe >= uint64(cp)<<16 || verifrt.Initial(buf, probe) == 0)
		verifrt.Assert(m.Buffer[probe] == 0, "new pages read as zero")
		verifrt.Cover("new")
	}
}

// VerifC14_NewMemory: construction from a validated memory type.
func VerifC14_NewMemory() {
	min, cp, max := verifrt.U32("min"), verifrt.U32("cap"), verifrt.U32("max")
	verifrt.Assume(min <= cp && cp <= max && max <= 65536)
	m := NewMemoryInstance(&Memory{Min: min, Cap: cp, Max: max}, nil, &verifEngineStub{})
	verifrt.Assert(uint64(len(m.Buffer)) == uint64(min)<<16, "initial size is the minimum")
	verifrt.Assert(m.Pages() == min && m.Max == max && m.Cap >= min, "limits recorded")
	probe := verifrt.U64("probe")
	verifrt.Assume(probe < uint64(min)<<16)
	verifrt.Assert(m.Buffer[probe] == 0, "fresh memory is zero")
	verifrt.Cover("made")
}

//go:build verif

package wasm

import (
	"github.com/tetratelabs/wazero/api"
	"github.com/tetratelabs/wazero/internal/leb128"
	"github.com/tetratelabs/wazero/internal/verifrt"
)

// verifOwningEngine: a module engine that owns its globals (like the compiler): the live value is here, not in Val.
type verifOwningEngine struct {
	verifEngineStub
	lo, hi uint64
}

func (e *verifOwningEngine) OwnsGlobals() bool                      { return true }
func (e *verifOwningEngine) GetGlobalValue(Index) (uint64, uint64)  { return e.lo, e.hi }
func (e *verifOwningEngine) SetGlobalValue(_ Index, lo, hi uint64)  { e.lo, e.hi = lo, hi }

var verifFewTypes = []ValueType{ValueTypeI32, ValueTypeI64, ValueTypeFuncref}

var verifValTypes = []ValueType{ValueTypeI32, ValueTypeI64, ValueTypeF32, ValueTypeF64, ValueTypeV128, ValueTypeFuncref, ValueTypeExternref}

// VerifC04_ConstCapture: a constant expression (global.get $imported) captures the value the imported global has at
// instantiation time - for every value type, whether the exporting engine keeps globals itself or not, and whatever the
// (possibly different) initial value was.
func VerifC04_ConstCapture() {
	vt := verifValTypes[verifrt.Choose("type", len(verifValTypes))]
	initial, live, liveHi := verifrt.U64("initial"), verifrt.U64("live"), verifrt.U64("liveHi")
	if vt == ValueTypeI32 || vt == ValueTypeF32 {
		initial, live = uint64(uint32(initial)), uint64(uint32(live))
	}
	imp := &GlobalInstance{Type: GlobalType{ValType: vt, Mutable: verifrt.Bool("mutable")}, Val: initial}
	if verifrt.Bool("engineOwned") {
		imp.Me = &verifOwningEngine{lo: live, hi: liveHi}
	} else {
		imp.Val, imp.ValHi = live, liveHi
	}
	if !imp.Type.Mutable {
		verifrt.Assume(initial == live) // an immutable global never changes
	}
	expr := &ConstantExpression{Opcode: OpcodeGlobalGet, Data: leb128.EncodeUint32(0)}
	verifrt.Assert(validateConstExpression([]GlobalType{imp.Type}, 0, expr, vt) == nil, "the expression is accepted by validation (else nothing to check)")
	g := &GlobalInstance{Type: GlobalType{ValType: vt}}
	g.initialize([]*GlobalInstance{imp}, expr, nil)
	wantLo, wantHi := imp.Value()
	verifrt.Assert(g.Val == wantLo, "a global initialised with (global.get $imported) holds the imported global's current value")
	if vt == ValueTypeV128 {
		verifrt.Assert(g.ValHi == wantHi, "v128 high half as well")
	}
	if vt == ValueTypeI32 {
		verifrt.Assert(executeConstExpressionI32([]*GlobalInstance{imp}, expr) == int32(wantLo), "a segment offset (global.get $imported) is the imported global's current value")
	}
	verifrt.Cover("captured")
}

// VerifC04_ConstExprValidation: what validateConstExpression accepts is what the instantiation code indexes without
// further checks: the global index is in range and has the expected type, a ref.func index is in range.
func VerifC04_ConstExprValidation() {
	n := verifrt.Choose("nglobals", 3)
	globals := make([]GlobalType, n)
	for i := range globals {
		globals[i] = GlobalType{ValType: verifFewTypes[verifrt.Choose("gtype", len(verifFewTypes))], Mutable: verifrt.Bool("gmut")}
	}
	numFuncs := verifrt.U32("numFuncs")
	expected := verifFewTypes[verifrt.Choose("expected", len(verifFewTypes))]
	op := []Opcode{OpcodeGlobalGet, OpcodeRefFunc, OpcodeI32Const, OpcodeI64Const}[verifrt.Choose("op", 4)]
	dl := verifrt.Choose("datalen", 4)
	data := verifrt.Bytes("data", uint64(dl))
	expr := &ConstantExpression{Opcode: op, Data: data}
	err := validateConstExpression(globals, numFuncs, expr, expected)
	if err == nil {
		switch op {
		case OpcodeGlobalGet:
			id, _, e := leb128.LoadUint32(data)
			verifrt.Assert(e == nil && int(id) < n && globals[id].ValType == expected, "an accepted global.get names an in-range global of the expected type")
		case OpcodeRefFunc:
			id, _, e := leb128.LoadUint32(data)
			verifrt.Assert(e == nil && id < numFuncs && expected == ValueTypeFuncref, "an accepted ref.func names an in-range function")
		case OpcodeI32Const:
			verifrt.Assert(expected == ValueTypeI32, "i32.const only where an i32 is expected")
		case OpcodeI64Const:
			verifrt.Assert(expected == ValueTypeI64, "i64.const only where an i64 is expected")
		}
		verifrt.Cover("accepted")
	}
}

var _ = api.CoreFeaturesV2

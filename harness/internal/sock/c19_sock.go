//go:build verif

package sock

import "github.com/tetratelabs/wazero/internal/verifrt"

func verifSnap(c *Config) []TCPAddress { return append([]TCPAddress(nil), c.TCPAddresses...) }

func verifSame(c *Config, s []TCPAddress) bool {
	if len(c.TCPAddresses) != len(s) {
		return false
	}
	for i := range s {
		if c.TCPAddresses[i] != s[i] {
			return false
		}
	}
	return true
}

// VerifC19_SockConfig: from a base of 0..5 listeners (so that the backing array has the capacities real derivation chains
// produce), two sibling derivations and a grandchild derivation with arbitrary ports leave the base and the earlier child
// deeply unchanged, and each derived configuration holds exactly its parent's listeners plus its own.
func VerifC19_SockConfig() {
	base := &Config{}
	hist := verifrt.Choose("hist", 6)
	for i := 0; i < hist; i++ {
		base = base.WithTCPListener("h", 1000+i)
	}
	s0 := verifSnap(base)
	pa, pb, pc := int(verifrt.U16("pa")), int(verifrt.U16("pb")), int(verifrt.U16("pc"))
	a := base.WithTCPListener("a", pa)
	sa := verifSnap(a)
	verifrt.Assert(verifSame(base, s0), "WithTCPListener leaves its receiver unchanged")
	verifrt.Assert(len(sa) == hist+1 && sa[hist] == TCPAddress{"a", pa}, "the derived configuration has the parent's listeners plus the new one")
	b := base.WithTCPListener("b", pb)
	verifrt.Assert(verifSame(base, s0), "a second derivation leaves the receiver unchanged")
	verifrt.Assert(verifSame(a, sa), "a sibling derivation leaves an earlier child unchanged")
	verifrt.Assert(len(b.TCPAddresses) == hist+1 && b.TCPAddresses[hist] == TCPAddress{"b", pb}, "the sibling holds its own listener")
	c := a.WithTCPListener("c", pc)
	verifrt.Assert(verifSame(a, sa), "a grandchild derivation leaves its parent unchanged")
	verifrt.Assert(len(c.TCPAddresses) == hist+2 && c.TCPAddresses[hist+1] == TCPAddress{"c", pc}, "the grandchild holds its own listener")
	verifrt.Cover("derived")
}

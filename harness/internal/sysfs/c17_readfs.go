//go:build verif

package sysfs

import (
	"io/fs"

	experimentalsys "github.com/tetratelabs/wazero/experimental/sys"
	"github.com/tetratelabs/wazero/internal/verifrt"
	"github.com/tetratelabs/wazero/sys"
)

// VerifRecFS is a recording stub of a writable file system: every mutating entry point counts.
type VerifRecFS struct {
	experimentalsys.UnimplementedFS
	Mutations int
	Opens     int
	LastFlag  experimentalsys.Oflag
	File      *VerifRecFile
	NextIsDir bool // what the next opened file answers to IsDir
}

func (r *VerifRecFS) OpenFile(path string, flag experimentalsys.Oflag, perm fs.FileMode) (experimentalsys.File, experimentalsys.Errno) {
	r.Opens++
	r.LastFlag = flag
	r.File = &VerifRecFile{fs: r, IsDirectory: r.NextIsDir}
	return r.File, 0
}
func (r *VerifRecFS) Mkdir(string, fs.FileMode) experimentalsys.Errno  { r.Mutations++; return 0 }
func (r *VerifRecFS) Chmod(string, fs.FileMode) experimentalsys.Errno  { r.Mutations++; return 0 }
func (r *VerifRecFS) Rename(string, string) experimentalsys.Errno      { r.Mutations++; return 0 }
func (r *VerifRecFS) Rmdir(string) experimentalsys.Errno               { r.Mutations++; return 0 }
func (r *VerifRecFS) Unlink(string) experimentalsys.Errno              { r.Mutations++; return 0 }
func (r *VerifRecFS) Link(string, string) experimentalsys.Errno        { r.Mutations++; return 0 }
func (r *VerifRecFS) Symlink(string, string) experimentalsys.Errno     { r.Mutations++; return 0 }
func (r *VerifRecFS) Utimens(string, int64, int64) experimentalsys.Errno { r.Mutations++; return 0 }
func (r *VerifRecFS) Stat(string) (sys.Stat_t, experimentalsys.Errno)  { return sys.Stat_t{}, 0 }
func (r *VerifRecFS) Lstat(string) (sys.Stat_t, experimentalsys.Errno) { return sys.Stat_t{}, 0 }

type VerifRecFile struct {
	experimentalsys.UnimplementedFile
	fs    *VerifRecFS
	IsDirectory bool
}

func (f *VerifRecFile) IsDir() (bool, experimentalsys.Errno)          { return f.IsDirectory, 0 }
func (f *VerifRecFile) Write([]byte) (int, experimentalsys.Errno)     { f.fs.Mutations++; return 0, 0 }
func (f *VerifRecFile) Pwrite([]byte, int64) (int, experimentalsys.Errno) { f.fs.Mutations++; return 0, 0 }
func (f *VerifRecFile) Truncate(int64) experimentalsys.Errno          { f.fs.Mutations++; return 0 }
func (f *VerifRecFile) Utimens(int64, int64) experimentalsys.Errno    { f.fs.Mutations++; return 0 }
func (f *VerifRecFile) Sync() experimentalsys.Errno                   { return 0 }
func (f *VerifRecFile) Datasync() experimentalsys.Errno               { return 0 }
func (f *VerifRecFile) SetAppend(bool) experimentalsys.Errno          { return 0 }
func (f *VerifRecFile) Read([]byte) (int, experimentalsys.Errno)      { return 0, 0 }
func (f *VerifRecFile) Close() experimentalsys.Errno                  { return 0 }

// VerifWritingFlags are the open flags that can create, empty or open a file for writing.
const VerifWritingFlags = experimentalsys.O_WRONLY | experimentalsys.O_RDWR | experimentalsys.O_CREAT | experimentalsys.O_TRUNC

// VerifC17_ReadFSOpenFile: for every flag word, ReadFS either refuses or forwards a flag word that cannot modify anything.
func VerifC17_ReadFSOpenFile() {
	rec := &VerifRecFS{}
	ro := &ReadFS{FS: rec}
	flag := experimentalsys.Oflag(verifrt.U32("flag"))
	f, errno := ro.OpenFile("p", flag, 0)
	if rec.Opens > 0 {
		verifrt.Assert(rec.LastFlag&VerifWritingFlags == 0, "ReadFS.OpenFile forwards no flag that creates, truncates or opens for writing")
		verifrt.Cover("forwarded")
	}
	if errno != 0 {
		verifrt.Assert(f == nil, "refused open returns no file")
		verifrt.Cover("refused")
	}
	// plain read-only opens keep working
	if flag&^(experimentalsys.O_DIRECTORY|experimentalsys.O_NOFOLLOW|experimentalsys.O_NONBLOCK) == 0 {
		verifrt.Assert(errno == 0 && rec.Opens == 1, "read-only opens are forwarded")
		verifrt.Cover("readonly")
	}
}

// VerifC17_Mutators: every mutating FS / File method of a read-only mount fails without reaching the wrapped object.
func VerifC17_Mutators() {
	rec := &VerifRecFS{}
	ro := &ReadFS{FS: rec}
	var errno experimentalsys.Errno
	switch verifrt.Choose("op", 8) {
	case 0:
		errno = ro.Mkdir("a", fs.FileMode(verifrt.U32("perm")))
	case 1:
		errno = ro.Chmod("a", fs.FileMode(verifrt.U32("perm")))
	case 2:
		errno = ro.Rename("a", "b")
	case 3:
		errno = ro.Rmdir("a")
	case 4:
		errno = ro.Unlink("a")
	case 5:
		errno = ro.Link("a", "b")
	case 6:
		errno = ro.Symlink("a", "b")
	case 7:
		errno = ro.Utimens("a", verifrt.I64("atim"), verifrt.I64("mtim"))
	}
	verifrt.Assert(errno != 0 && rec.Mutations == 0, "mutating FS method on a read-only mount fails and does not reach the wrapped FS")
	verifrt.Cover("fs")
}

// VerifC17_FileMutators: same for files opened through the read-only mount.
func VerifC17_FileMutators() {
	rec := &VerifRecFS{NextIsDir: verifrt.Bool("isdir")} // the opened path is a file or a directory
	ro := &ReadFS{FS: rec}
	flags := []experimentalsys.Oflag{experimentalsys.O_RDONLY, experimentalsys.O_RDONLY | experimentalsys.O_DIRECTORY}
	f, errno := ro.OpenFile("p", flags[verifrt.Choose("oflag", 2)], 0)
	verifrt.Assume(errno == 0)
	var e experimentalsys.Errno
	switch verifrt.Choose("op", 4) {
	case 0:
		_, e = f.Write(verifrt.Bytes("buf", 4))
	case 1:
		_, e = f.Pwrite(verifrt.Bytes("buf", 4), verifrt.I64("off"))
	case 2:
		e = f.Truncate(verifrt.I64("size"))
	case 3:
		e = f.Utimens(verifrt.I64("atim"), verifrt.I64("mtim"))
	}
	verifrt.Assert(e != 0 && rec.Mutations == 0, "mutating File method on a read-only mount fails and does not reach the wrapped file")
	verifrt.Cover("file")
}

// VerifC17_AdaptFSMutators: fs.FS mounts refuse every mutation.
func VerifC17_AdaptFSMutators() {
	a := &AdaptFS{}
	var errno experimentalsys.Errno
	switch verifrt.Choose("op", 8) {
	case 0:
		errno = a.Mkdir("a", 0)
	case 1:
		errno = a.Chmod("a", 0)
	case 2:
		errno = a.Rename("a", "b")
	case 3:
		errno = a.Rmdir("a")
	case 4:
		errno = a.Unlink("a")
	case 5:
		errno = a.Link("a", "b")
	case 6:
		errno = a.Symlink("a", "b")
	case 7:
		errno = a.Utimens("a", 0, 0)
	}
	verifrt.Assert(errno != 0, "mutating FS method on an fs.FS mount fails")
	verifrt.Cover("adapt")
}

// VerifC17_ToOsOpenFlag: a flag word without writing flags maps to an os flag word without them.
func VerifC17_ToOsOpenFlag() {
	flag := experimentalsys.Oflag(verifrt.U32("flag"))
	verifrt.Assume(flag&VerifWritingFlags == 0)
	o := toOsOpenFlag(flag)
	const osWriting = 0x1 | 0x2 | 0x40 | 0x200 // O_WRONLY|O_RDWR|O_CREAT|O_TRUNC on linux
	verifrt.Assert(o&osWriting == 0, "read-only Oflag maps to an os flag without O_WRONLY|O_RDWR|O_CREAT|O_TRUNC")
	verifrt.Cover("mapped")
}

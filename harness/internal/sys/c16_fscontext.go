//go:build verif

package sys

import (
	"io/fs"

	experimentalsys "github.com/tetratelabs/wazero/experimental/sys"
	"github.com/tetratelabs/wazero/internal/verifrt"
)

// verifFile counts how often it is closed; verifFS hands such files out.
type verifFile struct {
	experimentalsys.UnimplementedFile
	id     int
	closed int
}

func (f *verifFile) Close() experimentalsys.Errno         { f.closed++; return 0 }
func (f *verifFile) IsDir() (bool, experimentalsys.Errno) { return false, 0 }

type verifFS struct {
	experimentalsys.UnimplementedFS
	files []*verifFile
}

func (v *verifFS) OpenFile(string, experimentalsys.Oflag, fs.FileMode) (experimentalsys.File, experimentalsys.Errno) {
	f := &verifFile{id: len(v.files)}
	v.files = append(v.files, f)
	return f, 0
}

// VerifC16_Descriptors: a reference model of the descriptor table (map fd -> file, lowest-free allocation) run against
// FSContext.OpenFile / CloseFile / Renumber for every history of 0..2 opens followed by two arbitrary operations with arbitrary descriptors (-1..5).
//verif:opts maxpaths=60000 wall=900
func VerifC16_Descriptors() {
	vfs := &verifFS{}
	ctx, err := NewContext(0, nil, nil, nil, nil, nil, nil, nil, 0, nil, 0, nil, nil, []experimentalsys.FS{vfs}, []string{"/"}, nil)
	if err != nil {
		panic(err)
	}
	c := ctx.FS()
	// ghost: fds 0..2 stdio, 3 preopen; model[fd] = file id (>= 0) for files opened through OpenFile
	const maxFD = 6
	var model [maxFD]int
	for i := range model {
		model[i] = -1
	}
	used := func(fd int32) bool { return fd >= 0 && (fd < 4 || (fd < maxFD && model[fd] >= 0)) }
	// history: 0..2 opens (so that descriptors 4 and 5 may be in use), then two arbitrary operations
	pre := verifrt.Choose("opened", 3)
	for step := 0; step < pre+2; step++ {
		op := 0
		if step >= pre {
			op = verifrt.Choose("op", 3)
		}
		switch op {
		case 0: // open: lowest free descriptor
			fd, errno := c.OpenFile(vfs, "f", 0, 0)
			want := int32(-1)
			for i := int32(4); i < maxFD; i++ {
				if model[i] < 0 {
					want = i
					break
				}
			}
			if want < 0 {
				verifrt.Assume(false) // keep the ghost small
			}
			verifrt.Assert(errno == 0 && fd == want, "open allocates the lowest free descriptor")
			model[want] = len(vfs.files) - 1
		case 1: // close
			fd := int32(verifrt.Choose("fd", maxFD+1)) - 1 // -1..7
			errno := c.CloseFile(fd)
			verifrt.Assert((errno == 0) == used(fd), "close succeeds exactly on descriptors in use")
			if fd >= 4 && used(fd) {
				f := vfs.files[model[fd]]
				verifrt.Assert(f.closed == 1, "close closes the file exactly once")
				model[fd] = -1
			} else if used(fd) {
				verifrt.Assume(false) // closing stdio / the preopen: not tracked by this ghost
			}
		case 2: // renumber
			from := int32(verifrt.Choose("from", maxFD+1)) - 1
			to := int32(verifrt.Choose("to", maxFD+1)) - 1
			errno := c.Renumber(from, to)
			switch {
			case !used(from) || to < 0:
				verifrt.Assert(errno == experimentalsys.EBADF, "renumber of an unused or negative descriptor is EBADF")
			case from < 4 || (to >= 0 && to < 4):
				verifrt.Assert(errno != 0, "renumber from or onto a pre-open is refused")
				if from >= 4 {
					verifrt.Assert(vfs.files[model[from]].closed == 0, "a refused renumber does not close the source")
				}
			case from == to:
				verifrt.Assert(errno == 0, "renumbering a descriptor onto itself succeeds")
				verifrt.Assert(vfs.files[model[from]].closed == 0, "renumbering a descriptor onto itself is a no-op: the file stays open")
			default:
				verifrt.Assert(errno == 0, "renumber succeeds")
				if model[to] >= 0 {
					verifrt.Assert(vfs.files[model[to]].closed == 1, "the file previously at the target is closed")
				}
				verifrt.Assert(vfs.files[model[from]].closed == 0, "the moved file is not closed")
				model[to] = model[from]
				model[from] = -1
			}
		}
		// agreement after every step
		for fd := int32(4); fd < maxFD; fd++ {
			e, ok := c.LookupFile(fd)
			verifrt.Assert(ok == (model[fd] >= 0), "lookup finds exactly the descriptors in use")
			if ok && model[fd] >= 0 {
				got, isV := e.File.(interface{ Raw() experimentalsys.File })
				_ = got
				_ = isV
			}
		}
	}
	verifrt.Cover("history")
}

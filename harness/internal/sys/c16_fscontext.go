//go:build verif

package sys

import (
	"io/fs"

	experimentalsys "github.com/tetratelabs/wazero/experimental/sys"
	"github.com/tetratelabs/wazero/internal/verifrt"
)

// verifFile counts how often it is closed; verifFS hands such files out.
type verifFile struct {
	experimentalsys.UnimplementedFile
	id     int
	closed int
}

func (f *verifFile) Close() experimentalsys.Errno         { f.closed++; return 0 }
func (f *verifFile) IsDir() (bool, experimentalsys.Errno) { return false, 0 }

type verifFS struct {
	experimentalsys.UnimplementedFS
	files []*verifFile
}

func (v *verifFS) OpenFile(string, experimentalsys.Oflag, fs.FileMode) (experimentalsys.File, experimentalsys.Errno) {
	f := &verifFile{id: len(v.files)}
	v.files = append(v.files, f)
	return f, 0
}

// VerifC16_Descriptors: a reference model of the descriptor table (map fd -> file, lowest-free allocation) run against
// FSContext.OpenFile / CloseFile / Renumber: a bulk of 0, 59 or 60 opens (so that the table is just below / exactly at a
// 64-entry word of its bitmap), then 0..2 more opens, then two arbitrary operations with descriptors around the top of
// the table (and -1, stdio, the pre-open).
//verif:opts split=bulk:3 maxpaths=60000 wall=900
func VerifC16_Descriptors() {
	vfs := &verifFS{}
	ctx, err := NewContext(0, nil, nil, nil, nil, nil, nil, nil, 0, nil, 0, nil, nil, []experimentalsys.FS{vfs}, []string{"/"}, nil)
	if err != nil {
		panic(err)
	}
	c := ctx.FS()
	// ghost: fds 0..2 stdio, 3 preopen; model[fd] = file id for files opened through OpenFile
	model := map[int32]int{}
	used := func(fd int32) bool {
		if fd >= 0 && fd < 4 {
			return true
		}
		_, ok := model[fd]
		return ok
	}
	lowestFree := func() int32 {
		for i := int32(4); ; i++ {
			if !used(i) {
				return i
			}
		}
	}
	bulk := []int{0, 59, 60}[verifrt.Choose("bulk", 3)]
	for i := 0; i < bulk; i++ {
		fd, errno := c.OpenFile(vfs, "f", 0, 0)
		if errno != 0 || fd != int32(4+i) {
			verifrt.Assert(false, "open allocates the lowest free descriptor")
			return
		}
		model[fd] = len(vfs.files) - 1
	}
	base := int32(4 + bulk)
	// the descriptors the arbitrary operations may name
	cand := []int32{-1, 0, 3, base - 2, base - 1, base, base + 1, base + 2}
	if bulk == 0 {
		cand = []int32{-1, 0, 3, 4, 5, 6, 7, 1}
	}
	pre := verifrt.Choose("opened", 3)
	for step := 0; step < pre+2; step++ {
		op := 0
		if step >= pre {
			op = verifrt.Choose("op", 3)
		}
		switch op {
		case 0: // open: lowest free descriptor
			want := lowestFree()
			fd, errno := c.OpenFile(vfs, "f", 0, 0)
			verifrt.Assert(errno == 0 && fd == want, "open allocates the lowest free descriptor")
			model[want] = len(vfs.files) - 1
		case 1: // close
			fd := cand[verifrt.Choose("fd", len(cand))]
			wasUsed := used(fd)
			errno := c.CloseFile(fd)
			verifrt.Assert((errno == 0) == wasUsed, "close succeeds exactly on descriptors in use")
			if fd >= 4 && wasUsed {
				f := vfs.files[model[fd]]
				verifrt.Assert(f.closed == 1, "close closes the file exactly once")
				delete(model, fd)
			} else if wasUsed {
				verifrt.Assume(false) // closing stdio / the preopen: not tracked by this ghost
			}
		case 2: // renumber
			from := cand[verifrt.Choose("from", len(cand))]
			to := cand[verifrt.Choose("to", len(cand))]
			errno := c.Renumber(from, to)
			switch {
			case !used(from) || to < 0:
				verifrt.Assert(errno == experimentalsys.EBADF, "renumber of an unused or negative descriptor is EBADF")
			case from < 4 || (to >= 0 && to < 4):
				verifrt.Assert(errno != 0, "renumber from or onto a pre-open is refused")
				if from >= 4 {
					verifrt.Assert(vfs.files[model[from]].closed == 0, "a refused renumber does not close the source")
				}
			case from == to:
				verifrt.Assert(errno == 0, "renumbering a descriptor onto itself succeeds")
				verifrt.Assert(vfs.files[model[from]].closed == 0, "renumbering a descriptor onto itself is a no-op: the file stays open")
			default:
				verifrt.Assert(errno == 0, "renumber succeeds")
				if old, ok := model[to]; ok {
					verifrt.Assert(vfs.files[old].closed == 1, "the file previously at the target is closed")
				}
				verifrt.Assert(vfs.files[model[from]].closed == 0, "the moved file is not closed")
				model[to] = model[from]
				delete(model, from)
			}
		}
		// agreement after every step, over the window of descriptors the operations can touch
		for _, fd := range cand {
			if fd < 4 {
				continue
			}
			_, ok := c.LookupFile(fd)
			verifrt.Assert(ok == used(fd), "lookup finds exactly the descriptors in use")
		}
	}
	verifrt.Cover("history")
}

// VerifC16_RenumberFar: fd_renumber of an open file to ANY target descriptor 0 .. 2^31-1 other than the second open file
// (pre-opens, itself, free slots inside the table, far above it where the table grows by a symbolic amount): the
// operation is atomic - on success the file is found under the target only and stays open, on failure it is still found
// under the source and stays open - and the other open descriptor and lowest-free allocation are unaffected.
func VerifC16_RenumberFar() {
	vfs := &verifFS{}
	ctx, err := NewContext(0, nil, nil, nil, nil, nil, nil, nil, 0, nil, 0, nil, nil, []experimentalsys.FS{vfs}, []string{"/"}, nil)
	if err != nil {
		panic(err)
	}
	c := ctx.FS()
	fd4, e4 := c.OpenFile(vfs, "a", 0, 0)
	fd5, e5 := c.OpenFile(vfs, "b", 0, 0)
	verifrt.Assert(e4 == 0 && e5 == 0 && fd4 == 4 && fd5 == 5, "open allocates the lowest free descriptors")
	entry4, _ := c.LookupFile(4)
	entry5, _ := c.LookupFile(5)
	to := verifrt.I32("to")
	verifrt.Assume(to >= 0 && to != 5)
	errno := c.Renumber(4, to)
	moved, okTo := c.LookupFile(to)
	orig, okFrom := c.LookupFile(4)
	switch {
	case to == 4:
		verifrt.Assert(errno == 0 && okFrom && orig == entry4, "renumbering a descriptor onto itself is a no-op")
	case to < 4:
		verifrt.Assert(errno != 0, "renumber onto a pre-open is refused")
		verifrt.Assert(okFrom && orig == entry4, "a refused renumber leaves the file under its descriptor")
		verifrt.Cover("refused")
	case errno == 0:
		verifrt.Assert(okTo && !okFrom && moved == entry4, "after a successful renumber the file is found under the target only")
		if to < 4096 { // the witness replayed natively stays small (a far target allocates the whole table natively)
			verifrt.Cover("moved")
		}
	default:
		verifrt.Assert(okFrom && !okTo && orig == entry4, "a refused renumber leaves the file under its descriptor")
	}
	verifrt.Assert(vfs.files[0].closed == 0, "renumbering does not close the moved file")
	other, ok5 := c.LookupFile(5)
	verifrt.Assert(ok5 && other == entry5 && vfs.files[1].closed == 0, "other descriptors are unaffected")
	if errno == 0 && to > 5 {
		fd, e := c.OpenFile(vfs, "c", 0, 0)
		verifrt.Assert(e == 0 && fd == 4, "the freed descriptor is the lowest free one")
	}
}

// VerifC15_RenumberAtomic: the same claim as VerifC16_RenumberFar, counted for C15 (a guest-chosen target descriptor never
// leaves the descriptor table inconsistent: an open file always stays reachable under exactly one descriptor).
func VerifC15_RenumberAtomic() { VerifC16_RenumberFar() }

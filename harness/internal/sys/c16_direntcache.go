//go:build verif

package sys

import (
	"io/fs"

	experimentalsys "github.com/tetratelabs/wazero/experimental/sys"
	"github.com/tetratelabs/wazero/internal/fsapi"
	"github.com/tetratelabs/wazero/internal/verifrt"
	"github.com/tetratelabs/wazero/sys"
)

// verifDir is a directory whose Readdir hands out its names in order; Seek(0) rewinds.
type verifDir struct {
	experimentalsys.UnimplementedFile
	names []string
	pos   int
}

func (f *verifDir) IsDir() (bool, experimentalsys.Errno)     { return true, 0 }
func (f *verifDir) Ino() (sys.Inode, experimentalsys.Errno)  { return 7, 0 }
func (f *verifDir) Seek(int64, int) (int64, experimentalsys.Errno) {
	f.pos = 0
	return 0, 0
}
func (f *verifDir) Readdir(n int) ([]experimentalsys.Dirent, experimentalsys.Errno) {
	var out []experimentalsys.Dirent
	for (n < 0 || len(out) < n) && f.pos < len(f.names) {
		out = append(out, experimentalsys.Dirent{Name: f.names[f.pos], Ino: sys.Inode(100 + f.pos), Type: 0})
		f.pos++
	}
	return out, 0
}
func (f *verifDir) Close() experimentalsys.Errno { return 0 }

// VerifC16_DirentCache: the sliding-window cache behind fd_readdir against the reference listing ['.', '..', names...]:
// a history of four reads on a directory of 0..3 entries, each asking for 3..6 entries (fd_readdir asks for at least 3)
// from a position the protocol allows - 0 (rewind) or any cookie handed out by the previous read - returns exactly the
// slice of the listing that starts there, with the right names and inodes, whatever the earlier reads were.
//verif:opts split=entries:4 maxpaths=400000
func VerifC16_DirentCache() {
	all := []string{"a", "bb", "c"}
	k := verifrt.Choose("entries", 4)
	listing := append([]string{".", ".."}, all[:k]...)
	fe := &FileEntry{File: fsapi.Adapt(&verifDir{names: all[:k]})}
	dc, errno := fe.DirentCache()
	verifrt.Assert(errno == 0 && dc != nil, "a directory has a dirent cache")
	if errno != 0 {
		return
	}
	lastPos, lastLen := uint64(0), 0
	stepNames := []string{"1", "2", "3", "4"}
	for step := 0; step < 4; step++ {
		n := uint32(3 + verifrt.Choose("n"+stepNames[step], 4))
		pos := uint64(0)
		if step > 0 {
			// 0 = rewind; otherwise a cookie of the previous read: lastPos+1 .. lastPos+lastLen
			c := verifrt.Choose("cookie"+stepNames[step], lastLen+1)
			if c > 0 {
				pos = lastPos + uint64(c)
			}
		}
		got, errno := dc.Read(pos, n)
		verifrt.Assert(errno == 0, "a read from 0 or from a cookie of the previous read succeeds")
		if errno != 0 {
			return
		}
		want := len(listing) - int(pos)
		if want > int(n) {
			want = int(n)
		}
		if want < 0 {
			want = 0
		}
		verifrt.Assert(len(got) == want, "a read returns the entries from the position up to the count asked for or the end of the directory")
		for i := 0; i < len(got) && int(pos)+i < len(listing); i++ {
			verifrt.Assert(got[i].Name == listing[int(pos)+i], "entries come in listing order: '.', '..', then the directory's entries, each exactly once")
			if int(pos)+i == 0 {
				verifrt.Assert(got[i].Ino == 7 && got[i].Type == fs.ModeDir, "'.' carries the directory's inode")
			}
		}
		lastPos, lastLen = pos, len(got)
	}
	verifrt.Cover("history")
}

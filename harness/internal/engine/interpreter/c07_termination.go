//go:build verif

package interpreter

import (
	"context"
	"time"

	"github.com/tetratelabs/wazero/api"
	"github.com/tetratelabs/wazero/internal/verifrt"
	"github.com/tetratelabs/wazero/internal/wasmruntime"
	"github.com/tetratelabs/wazero/sys"
)

// verifDoneCtx is a context whose Done channel is already closed (cancelled or past its deadline).
type verifDoneCtx struct {
	ch  chan struct{}
	err error
}

func newVerifDoneCtx(err error) *verifDoneCtx {
	c := &verifDoneCtx{ch: make(chan struct{}), err: err}
	close(c.ch)
	return c
}
func (c *verifDoneCtx) Deadline() (time.Time, bool)   { return time.Time{}, false }
func (c *verifDoneCtx) Done() <-chan struct{}         { return c.ch }
func (c *verifDoneCtx) Err() error                    { return c.err }
func (c *verifDoneCtx) Value(interface{}) interface{} { return nil }

// the ways a guest can form a cycle; every branch condition that keeps the cycle going is an arbitrary parameter
var verifCycles = []struct {
	name   string
	funcs  []verifFunc
	table  bool
	tickIn bool // the cycle calls the imported host function "tick" (index 0) each round
}{
	{name: "loop-br", funcs: []verifFunc{{params: []byte{vI32}, export: "f", body: []byte{0x03, 0x40, 0x0c, 0x00, 0x0b}}}},
	{name: "loop-br_if", funcs: []verifFunc{{params: []byte{vI32}, export: "f", body: []byte{0x03, 0x40, 0x20, 0x00, 0x0d, 0x00, 0x0b}}}},
	{name: "loop-br_table", funcs: []verifFunc{{params: []byte{vI32}, export: "f", body: []byte{0x02, 0x40, 0x03, 0x40, 0x20, 0x00, 0x0e, 0x01, 0x00, 0x01, 0x0b, 0x0b}}}},
	{name: "loop-switch-continue", funcs: []verifFunc{{params: []byte{vI32}, export: "f", body: []byte{0x03, 0x40, 0x02, 0x40, 0x20, 0x00, 0x0e, 0x02, 0x00, 0x01, 0x01, 0x0b, 0x0b}}}},
	{name: "loop-switch-default", funcs: []verifFunc{{params: []byte{vI32}, export: "f", body: []byte{0x03, 0x40, 0x02, 0x40, 0x02, 0x40, 0x20, 0x00, 0x0e, 0x02, 0x00, 0x01, 0x02, 0x0b, 0x0b, 0x0b}}}},
	{name: "nested-loops", funcs: []verifFunc{{params: []byte{vI32}, export: "f", body: []byte{0x03, 0x40, 0x03, 0x40, 0x20, 0x00, 0x0d, 0x00, 0x0b, 0x0c, 0x00, 0x0b}}}},
	{name: "self-recursion", funcs: []verifFunc{{params: []byte{vI32}, export: "f", body: []byte{0x20, 0x00, 0x10, 0x00}}}},
	{name: "mutual-recursion", funcs: []verifFunc{{params: []byte{vI32}, export: "f", body: []byte{0x20, 0x00, 0x10, 0x01}}, {params: []byte{vI32}, body: []byte{0x20, 0x00, 0x10, 0x00}}}},
	{name: "return_call-self", funcs: []verifFunc{{params: []byte{vI32}, export: "f", body: []byte{0x20, 0x00, 0x12, 0x00}}}},
	{name: "return_call-mutual", funcs: []verifFunc{{params: []byte{vI32}, export: "f", body: []byte{0x20, 0x00, 0x12, 0x01}}, {params: []byte{vI32}, body: []byte{0x20, 0x00, 0x12, 0x00}}}},
	{name: "call_indirect-self", table: true, funcs: []verifFunc{{params: []byte{vI32}, export: "f", body: []byte{0x20, 0x00, 0x41, 0x00, 0x11, 0x00, 0x00}}}},
	{name: "return_call_indirect-self", table: true, funcs: []verifFunc{{params: []byte{vI32}, export: "f", body: []byte{0x20, 0x00, 0x41, 0x00, 0x13, 0x00, 0x00}}}},
}

func verifExitCode(err error) (uint32, bool) {
	if e, ok := err.(*sys.ExitError); ok {
		return e.ExitCode(), true
	}
	return 0, false
}

// VerifC07_ClosedBeforeCycle: the module has been closed (what the context watcher does when the context is done) while the
// guest is about to go round a cycle; with close-on-context-done compiled in, every cycle shape must end with the exit error
// within a bounded number of steps, whatever the branch conditions are.
//verif:opts split=shape:12 maxsteps=4000000
func VerifC07_ClosedBeforeCycle() {
	ctx := context.Background()
	sh := verifCycles[verifrt.Choose("shape", len(verifCycles))]
	w := newVerifWorld(ctx)
	m := &verifModule{tableMin: -1, funcs: sh.funcs}
	if sh.table {
		m.tableMin = 1
		m.elems = []uint32{0}
	}
	vi, err := w.guest(ctx, m, "guest", nil, true)
	verifrt.Assert(err == nil, "by-construction valid module is accepted")
	if err != nil {
		return
	}
	code := []uint32{sys.ExitCodeContextCanceled, sys.ExitCodeDeadlineExceeded}[verifrt.Choose("cause", 2)]
	_ = vi.inst.CloseWithExitCode(ctx, code)
	x := verifrt.U32("x")
	verifrt.SetStepBudget(3000000, "a guest cycle keeps running although its module was closed (no exit check and no stack growth on the cycle)")
	_, err = vi.inst.ExportedFunction("f").Call(ctx, uint64(x))
	verifrt.SetStepBudget(0, "")
	ec, isExit := verifExitCode(err)
	verifrt.Assert(err != nil, "call on a closed module fails")
	// recursion without a loop may legitimately end with stack overflow before reaching a check
	overflow := err != nil && !isExit && verifIsStackOverflow(err)
	verifrt.Assert(isExit && ec == code || overflow, "the call ends with the exit error carrying the close cause (or call-stack exhaustion)")
	verifrt.Cover("ended")
}

// VerifC07_CycleInImportedModule: the call is made on module "app" (the module the watcher closes) while the cycle runs in
// a function imported from module "lib" - entered directly from app (depth 1) or through another lib function (depth 2).
// Closing app must stop the guest wherever it is spinning.
//verif:opts split=shape:12 maxsteps=4000000
func VerifC07_CycleInImportedModule() {
	ctx := context.Background()
	sh := verifCycles[verifrt.Choose("shape", len(verifCycles))]
	depth := 1 + verifrt.Choose("depth", 2)
	w := newVerifWorld(ctx)
	lib := &verifModule{tableMin: -1, funcs: append(append([]verifFunc{}, sh.funcs...),
		verifFunc{params: []byte{vI32}, export: "g", body: []byte{0x20, 0x00, 0x10, 0x00}})}
	if sh.table {
		lib.tableMin = 1
		lib.elems = []uint32{0}
	}
	_, err := w.guest(ctx, lib, "lib", nil, true)
	verifrt.Assert(err == nil, "by-construction valid module is accepted")
	if err != nil {
		return
	}
	imp := "f"
	if depth == 2 {
		imp = "g"
	}
	app := &verifModule{tableMin: -1, imports: []verifImport{{module: "lib", name: imp, params: []byte{vI32}}},
		funcs: []verifFunc{{params: []byte{vI32}, export: "run", body: []byte{0x20, 0x00, 0x10, 0x00}}}}
	va, err := w.guest(ctx, app, "app", nil, true)
	verifrt.Assert(err == nil, "importer accepted")
	if err != nil {
		return
	}
	code := []uint32{sys.ExitCodeContextCanceled, sys.ExitCodeDeadlineExceeded}[verifrt.Choose("cause", 2)]
	_ = va.inst.CloseWithExitCode(ctx, code)
	x := verifrt.U32("x")
	verifrt.SetStepBudget(3000000, "a guest cycle in an imported module keeps running although the module the call was made on was closed")
	_, err = va.inst.ExportedFunction("run").Call(ctx, uint64(x))
	verifrt.SetStepBudget(0, "")
	ec, isExit := verifExitCode(err)
	overflow := err != nil && !isExit && verifIsStackOverflow(err)
	verifrt.Assert(isExit && ec == code || overflow, "the call ends with the exit error carrying the close cause (or call-stack exhaustion)")
	verifrt.Cover("ended")
}

func verifIsStackOverflow(err error) bool {
	return errorsIs(err, wasmruntime.ErrRuntimeStackOverflow)
}

// VerifC07_ClosedDuringCycle: cancellation arrives while the guest is running: a host function called on each round closes
// the module at an arbitrary round (k = 0..2); the call must end with the exit error for the cause.
func VerifC07_ClosedDuringCycle() {
	ctx := context.Background()
	w := newVerifWorld(ctx)
	k := verifrt.Choose("round", 3)
	code := []uint32{sys.ExitCodeContextCanceled, sys.ExitCodeDeadlineExceeded}[verifrt.Choose("cause", 2)]
	rounds := 0
	_, err := w.hostModule(ctx, []verifHost{{name: "tick", fn: func(ctx context.Context, mod api.Module, _ []uint64) {
		if rounds == k {
			// what closeModuleOnCanceledOrTimeout does from the watcher goroutine
			_ = mod.CloseWithExitCode(ctx, code)
		}
		rounds++
	}}}, nil)
	verifrt.Assert(err == nil, "host module accepted")
	if err != nil {
		return
	}
	// loop: call tick ; br 0
	g := &verifModule{tableMin: -1, imports: []verifImport{{module: "env", name: "tick"}},
		funcs: []verifFunc{{export: "f", body: []byte{0x03, 0x40, 0x10, 0x00, 0x0c, 0x00, 0x0b}}}}
	vi, err := w.guest(ctx, g, "guest", nil, true)
	verifrt.Assert(err == nil, "guest accepted")
	if err != nil {
		return
	}
	verifrt.SetStepBudget(3000000, "guest loop keeps running after its module was closed from a host callback")
	_, err = vi.inst.ExportedFunction("f").Call(ctx)
	verifrt.SetStepBudget(0, "")
	ec, isExit := verifExitCode(err)
	verifrt.Assert(isExit && ec == code, "the in-flight call returns the exit error for the cause")
	verifrt.Assert(rounds == k+1, "the guest stops at the first check after the close")
	verifrt.Assert(vi.inst.IsClosed(), "the module is closed afterwards")
	verifrt.Cover("stopped")
}

// VerifC07_ContextAlreadyDone: a call made with a context that is already cancelled / past its deadline returns the exit
// error for that cause at once and closes the module.
func VerifC07_ContextAlreadyDone() {
	bg := context.Background()
	w := newVerifWorld(bg)
	g := &verifModule{tableMin: -1, funcs: []verifFunc{{export: "f", body: []byte{0x03, 0x40, 0x0c, 0x00, 0x0b}}}}
	vi, err := w.guest(bg, g, "guest", nil, true)
	verifrt.Assert(err == nil, "guest accepted")
	if err != nil {
		return
	}
	var ctx context.Context
	var want uint32
	switch verifrt.Choose("cause", 4) {
	case 0:
		ctx, want = newVerifDoneCtx(context.Canceled), sys.ExitCodeContextCanceled
	case 1:
		ctx, want = newVerifDoneCtx(context.DeadlineExceeded), sys.ExitCodeDeadlineExceeded
	case 2: // a real context cancelled the plain way
		c, cancel := context.WithCancel(bg)
		cancel()
		ctx, want = c, sys.ExitCodeContextCanceled
	case 3: // a real context cancelled with an explicit cause: Err() is still context.Canceled
		c, cancel := context.WithCancelCause(bg)
		cancel(errVerifHost)
		ctx, want = c, sys.ExitCodeContextCanceled
	}
	verifrt.SetStepBudget(3000000, "call with a done context does not return")
	_, err = vi.inst.ExportedFunction("f").Call(ctx)
	verifrt.SetStepBudget(0, "")
	ec, isExit := verifExitCode(err)
	verifrt.Assert(isExit && ec == want, "exit code matches the context error")
	verifrt.Assert(vi.inst.IsClosed(), "the module is closed afterwards")
	verifrt.Cover("done-ctx")
}

//go:build verif

package interpreter

import (
	"context"
	"errors"

	"github.com/tetratelabs/wazero/experimental"

	"github.com/tetratelabs/wazero/internal/wasmruntime"
	"github.com/tetratelabs/wazero/sys"
)

// Exported helpers for harnesses in other packages (the wazevo front-end harness compares against the interpreter).

// VerifFuncSpec describes one function of a generated module.
type VerifFuncSpec struct {
	Params, Results, Locals, Body []byte
	Export                        string
}

// VerifModuleSpec describes a generated module: functions, optionally a memory and mutable i32/i64 globals.
type VerifModuleSpec struct {
	Funcs          []VerifFuncSpec
	HasMem         bool
	MemMin, MemMax uint32
	GlobalTypes    []byte  // vI32 / vI64, all mutable
	GlobalInits    []int64 // small values (single LEB byte)
	HostImports    []VerifFuncSpec // imported from "env" (Export is the import name)
}

const (
	VI32 = vI32
	VI64 = vI64
	VF32 = vF32
	VF64 = vF64
)

func VerifEncode(s *VerifModuleSpec) []byte {
	m := &verifModule{tableMin: -1, hasMem: s.HasMem, memMin: s.MemMin, memMax: s.MemMax}
	for _, f := range s.Funcs {
		m.funcs = append(m.funcs, verifFunc{params: f.Params, results: f.Results, locals: f.Locals, body: f.Body, export: f.Export})
	}
	for i, t := range s.GlobalTypes {
		op := byte(0x41)
		if t == vI64 {
			op = 0x42
		}
		m.globals = append(m.globals, verifGlobal{typ: t, mutable: true, init: []byte{op, byte(s.GlobalInits[i] & 0x3f)}})
	}
	for _, h := range s.HostImports {
		m.imports = append(m.imports, verifImport{module: "env", name: h.Export, params: h.Params, results: h.Results})
	}
	return m.encode()
}

// Trap kinds shared with the front-end harness.
const (
	VTrapNone = iota
	VTrapUnreachable
	VTrapOOB
	VTrapDivZero
	VTrapOverflow
	VTrapInvalidConv
	VTrapExit
	VTrapOther
)

func VerifTrapKind(err error) int {
	switch {
	case err == nil:
		return VTrapNone
	case errors.Is(err, wasmruntime.ErrRuntimeUnreachable):
		return VTrapUnreachable
	case errors.Is(err, wasmruntime.ErrRuntimeOutOfBoundsMemoryAccess):
		return VTrapOOB
	case errors.Is(err, wasmruntime.ErrRuntimeIntegerDivideByZero):
		return VTrapDivZero
	case errors.Is(err, wasmruntime.ErrRuntimeIntegerOverflow):
		return VTrapOverflow
	case errors.Is(err, wasmruntime.ErrRuntimeInvalidConversionToInteger):
		return VTrapInvalidConv
	}
	if _, ok := err.(*sys.ExitError); ok {
		return VTrapExit
	}
	return VTrapOther
}

// VerifInterpRun instantiates bin on the interpreter, installs mem as the linear memory (when non-nil), calls the export
// and returns results, trap kind, the final memory and the final values of the module's globals.
func VerifInterpRun(bin []byte, export string, mem []byte, memMaxPages uint32, args []uint64) (res []uint64, trap int, finalMem []byte, globals []uint64, ok bool) {
	ctx := context.Background()
	vi, err := verifInstantiate(ctx, bin, "m", nil, nil, nil, false)
	if err != nil {
		return nil, 0, nil, nil, false
	}
	if mem != nil && vi.inst.MemoryInstance != nil {
		mi := vi.inst.MemoryInstance
		mi.Buffer = mem
		mi.Cap, mi.Max = uint32(uint64(cap(mem))>>16), memMaxPages
	}
	res, err = vi.inst.ExportedFunction(export).Call(ctx, args...)
	trap = VerifTrapKind(err)
	if vi.inst.MemoryInstance != nil {
		finalMem = vi.inst.MemoryInstance.Buffer
	}
	for _, g := range vi.inst.Globals {
		globals = append(globals, g.Val)
	}
	return res, trap, finalMem, globals, true
}

// VerifEvent is one listener notification observed on the interpreter.
type VerifEvent struct {
	Kind int // 1 before, 2 after, 3 abort
	Fn   uint32
	Vals []uint64
}

// VerifInterpEvents runs the export with a recording listener on every function and returns results and the event log.
func VerifInterpEvents(bin []byte, export string, nfuncs int, args []uint64) (res []uint64, trap int, events []VerifEvent, ok bool) {
	ctx := context.Background()
	log := &verifLog{}
	ls := make([]experimental.FunctionListener, nfuncs)
	for i := range ls {
		ls[i] = verifListener{log}
	}
	vi, err := verifInstantiate(ctx, bin, "m", nil, nil, ls, false)
	if err != nil {
		return nil, 0, nil, false
	}
	res, err = vi.inst.ExportedFunction(export).Call(ctx, args...)
	for _, e := range log.ev {
		events = append(events, VerifEvent{Kind: e.kind, Fn: e.fn, Vals: e.vals})
	}
	return res, VerifTrapKind(err), events, true
}

// VerifAddPassiveData adds a data-count section and one passive data segment to an encoded module.
func VerifAddPassiveData(bin []byte, data []byte) []byte { return verifAddPassiveData(bin, data) }

// VerifImportedGlobalsModule encodes a module that imports the mutable i32 globals "A"."g<k>" for each k in owners (the
// same k may appear twice: one exported global imported under two indexes) and exports f with the given signature/body.
func VerifImportedGlobalsModule(owners []int, params, results, body []byte) []byte {
	m := &verifModule{tableMin: -1, funcs: []verifFunc{{params: params, results: results, body: body, export: "f"}}}
	for _, k := range owners {
		m.imports = append(m.imports, verifImport{module: "A", name: []string{"g0", "g1"}[k], kind: 3, desc: []byte{vI32, 0x01}})
	}
	return m.encode()
}

// VerifImportedGlobalsModuleWithBump is VerifImportedGlobalsModule plus an imported function A.bump (function index 0; the
// tested function is index 1) which adds one to A's g0.
func VerifImportedGlobalsModuleWithBump(owners []int, params, results, body []byte) []byte {
	m := &verifModule{tableMin: -1, funcs: []verifFunc{{params: params, results: results, body: body, export: "f"}}}
	for _, k := range owners {
		m.imports = append(m.imports, verifImport{module: "A", name: []string{"g0", "g1"}[k], kind: 3, desc: []byte{vI32, 0x01}})
	}
	m.imports = append(m.imports, verifImport{module: "A", name: "bump", kind: 0, params: []byte{}, results: []byte{}})
	return m.encode()
}

// VerifInterpRunWithGlobalsExporter instantiates an exporter "A" of two mutable i32 globals g0, g1 (initial values init0,
// init1, set through its own setter), then bin, calls bin's export f and returns results, trap kind and A's globals.
func VerifInterpRunWithGlobalsExporter(bin []byte, init0, init1 uint32, args []uint64) (res []uint64, trap int, g0, g1 uint64, ok bool) {
	ctx := context.Background()
	w := newVerifWorld(ctx)
	a := &verifModule{tableMin: -1,
		globals: []verifGlobal{{typ: vI32, mutable: true, init: []byte{0x41, 0x00}}, {typ: vI32, mutable: true, init: []byte{0x41, 0x00}}},
		exports: []verifExport{{name: "g0", kind: 3, index: 0}, {name: "g1", kind: 3, index: 1}},
		funcs: []verifFunc{{params: []byte{vI32, vI32}, export: "init", body: []byte{0x20, 0x00, 0x24, 0x00, 0x20, 0x01, 0x24, 0x01}},
			{export: "bump", body: []byte{0x23, 0x00, 0x41, 0x01, 0x6a, 0x24, 0x00}}}}
	va, err := w.guest(ctx, a, "A", nil, false)
	if err != nil {
		return nil, 0, 0, 0, false
	}
	if _, err = va.inst.ExportedFunction("init").Call(ctx, uint64(init0), uint64(init1)); err != nil {
		return nil, 0, 0, 0, false
	}
	vb, err := verifInstantiate(ctx, bin, "B", w.store, w.eng, nil, false)
	if err != nil {
		return nil, 0, 0, 0, false
	}
	res, err = vb.inst.ExportedFunction("f").Call(ctx, args...)
	return res, VerifTrapKind(err), va.inst.Globals[0].Val, va.inst.Globals[1].Val, true
}

//go:build verif

package interpreter

import (
	"context"

	"github.com/tetratelabs/wazero/internal/verifrt"
)

var verifMaxes = []int{-1, 1, 2, 3} // -1: no maximum

// VerifC04_MemoryImport: import matching for memories over a grid of limits, then sharing: a store through the exporter
// is read through the importer and memory.grow through the importer is seen by the exporter.
func VerifC04_MemoryImport() {
	ctx := context.Background()
	w := newVerifWorld(ctx)
	eMin, eMax := uint32(verifrt.Choose("eMin", 2)), verifMaxes[verifrt.Choose("eMax", 4)]
	iMin, iMax := uint32(verifrt.Choose("iMin", 2)), verifMaxes[verifrt.Choose("iMax", 4)]
	if eMax >= 0 && int(eMin) > eMax || iMax >= 0 && int(iMin) > iMax {
		verifrt.Assume(false) // not a valid limit
	}
	// exporter: memory, store(addr, v), size()
	a := &verifModule{tableMin: -1, hasMem: true, memMin: eMin, memMax: uint32(eMax), memNoMax: eMax < 0,
		exports: []verifExport{{name: "mem", kind: 2, index: 0}},
		funcs: []verifFunc{
			{params: []byte{vI32, vI32}, export: "store", body: []byte{0x20, 0x00, 0x20, 0x01, 0x36, 0x02, 0x00}},
			{results: []byte{vI32}, export: "size", body: []byte{0x3f, 0x00}},
		}}
	_, err := w.guest(ctx, a, "A", nil, false)
	verifrt.Assert(err == nil, "exporter accepted")
	if err != nil {
		return
	}
	// importer: load(addr), grow(n)
	b := &verifModule{tableMin: -1, imports: []verifImport{{module: "A", name: "mem", kind: 2, desc: vLimits(iMin, iMax)}},
		funcs: []verifFunc{
			{params: []byte{vI32}, results: []byte{vI32}, export: "load", body: []byte{0x20, 0x00, 0x28, 0x02, 0x00}},
			{params: []byte{vI32}, results: []byte{vI32}, export: "grow", body: []byte{0x20, 0x00, 0x40, 0x00}},
		}}
	vb, err := w.guest(ctx, b, "B", nil, false)
	// specification: the exporter's actual limits must lie within the importer's declared ones
	match := eMin >= iMin && (iMax < 0 || (eMax >= 0 && eMax <= iMax))
	verifrt.Assert((err == nil) == match, "a memory import is accepted exactly when the exported limits match the declared ones")
	if err != nil {
		verifrt.Cover("refused")
		return
	}
	va := w.store.Module("A")
	if eMin > 0 {
		addr, v := verifrt.U32("addr"), verifrt.U32("v")
		verifrt.Assume(uint64(addr)+4 <= uint64(eMin)<<16)
		_, e1 := va.ExportedFunction("store").Call(ctx, uint64(addr), uint64(v))
		r, e2 := vb.inst.ExportedFunction("load").Call(ctx, uint64(addr))
		verifrt.Assert(e1 == nil && e2 == nil && len(r) == 1 && r[0] == uint64(v), "a store through the exporter is visible through the importer")
	}
	g, e3 := vb.inst.ExportedFunction("grow").Call(ctx, 1)
	s, e4 := va.ExportedFunction("size").Call(ctx)
	verifrt.Assert(e3 == nil && e4 == nil && len(g) == 1 && len(s) == 1, "grow and size run")
	if e3 == nil && e4 == nil {
		grew := g[0] != 0xffffffff
		verifrt.Assert(grew == (eMax < 0 || int(eMin)+1 <= eMax), "growth through the importer succeeds exactly within the exporter's maximum")
		want := uint64(eMin)
		if grew {
			want++
		}
		verifrt.Assert(s[0] == want, "the exporter sees the size after growth through the importer")
	}
	verifrt.Cover("shared")
}

// VerifC04_GlobalImport: type and mutability matching, then sharing of a mutable global.
func VerifC04_GlobalImport() {
	ctx := context.Background()
	w := newVerifWorld(ctx)
	types := []byte{vI32, vI64, vF64}
	eT, iT := types[verifrt.Choose("eType", 3)], types[verifrt.Choose("iType", 3)]
	eMut, iMut := verifrt.Choose("eMut", 2) == 1, verifrt.Choose("iMut", 2) == 1
	initOf := map[byte][]byte{vI32: {0x41, 0x07}, vI64: {0x42, 0x07}, vF64: {0x44, 0, 0, 0, 0, 0, 0, 0x1c, 0x40}}
	setBody := []byte{0x20, 0x00, 0x24, 0x00}
	var funcs []verifFunc
	if eMut {
		funcs = []verifFunc{{params: []byte{eT}, export: "set", body: setBody}}
	} else {
		funcs = []verifFunc{{export: "nop", body: []byte{0x01}}}
	}
	a := &verifModule{tableMin: -1, globals: []verifGlobal{{typ: eT, mutable: eMut, init: initOf[eT]}},
		exports: []verifExport{{name: "g", kind: 3, index: 0}}, funcs: funcs}
	_, err := w.guest(ctx, a, "A", nil, false)
	verifrt.Assert(err == nil, "exporter accepted")
	if err != nil {
		return
	}
	mut := byte(0)
	if iMut {
		mut = 1
	}
	b := &verifModule{tableMin: -1, imports: []verifImport{{module: "A", name: "g", kind: 3, desc: []byte{iT, mut}}},
		funcs: []verifFunc{{results: []byte{iT}, export: "get", body: []byte{0x23, 0x00}}}}
	vb, err := w.guest(ctx, b, "B", nil, false)
	verifrt.Assert((err == nil) == (eT == iT && eMut == iMut), "a global import is accepted exactly when value type and mutability are equal")
	if err != nil {
		verifrt.Cover("refused")
		return
	}
	if eMut {
		v := verifrt.U64("v")
		if eT == vI32 {
			v = uint64(uint32(v))
		}
		_, e1 := w.store.Module("A").ExportedFunction("set").Call(ctx, v)
		r, e2 := vb.inst.ExportedFunction("get").Call(ctx)
		verifrt.Assert(e1 == nil && e2 == nil && len(r) == 1 && r[0] == v, "a write through the exporter is visible through the importer")
	}
	verifrt.Cover("shared")
}

// VerifC11_TwoInstances: two instances of one compiled module (active data segment, a mutable global, a table) share no
// mutable state: one arbitrary mutating call on the first leaves every observable of the second unchanged.
func VerifC11_TwoInstances() {
	ctx := context.Background()
	w := newVerifWorld(ctx)
	m := &verifModule{tableMin: 2, hasMem: true, memMin: 1, memMax: 2,
		globals: []verifGlobal{{typ: vI32, mutable: true, init: []byte{0x41, 0x2a}}},
		dataAt:  []byte{0x41, 0x08}, data: []byte{1, 2, 3, 4},
		elems:   []uint32{0},
		funcs: []verifFunc{
			{params: []byte{vI32, vI32}, export: "store", body: []byte{0x20, 0x00, 0x20, 0x01, 0x36, 0x02, 0x00}},
			{params: []byte{vI32}, export: "setg", body: []byte{0x20, 0x00, 0x24, 0x00}},
			{params: []byte{vI32}, results: []byte{vI32}, export: "grow", body: []byte{0x20, 0x00, 0x40, 0x00}},
			{params: []byte{vI32, vI32, vI32}, export: "fill", body: []byte{0x20, 0x00, 0x20, 0x01, 0x20, 0x02, 0xfc, 0x0b, 0x00}},
			{params: []byte{vI32}, results: []byte{vI32}, export: "load", body: []byte{0x20, 0x00, 0x28, 0x02, 0x00}},
			{results: []byte{vI32, vI32}, export: "state", body: []byte{0x23, 0x00, 0x3f, 0x00}},
			// table.set 0 (i32.const 1) (ref.null func): clears slot 1; table.size
			{export: "tset", body: []byte{0x41, 0x01, 0xd0, 0x70, 0x26, 0x00}},
			{results: []byte{vI32}, export: "tnull", body: []byte{0x41, 0x00, 0x25, 0x00, 0xd1}},
			{export: "tclear0", body: []byte{0x41, 0x00, 0xd0, 0x70, 0x26, 0x00}},
		}}
	// + a passive data segment with functions  init(dst): memory.init 0 (dst, 0, 4)   and   drop: data.drop 0
	m.funcs = append(m.funcs,
		verifFunc{params: []byte{vI32}, export: "init", body: []byte{0x20, 0x00, 0x41, 0x00, 0x41, 0x04, 0xfc, 0x08, 0x01, 0x00}},
		verifFunc{export: "drop", body: []byte{0xfc, 0x09, 0x01}})
	// + a passive ELEMENT segment holding a function that marks its own instance's global, installed by table.init and
	// reached by call_indirect:  mark: global.set 0 (i32.const 77) ; tinit: table.init 1 (dst 1, src 0, n 1) ; viatab: call_indirect [1]
	mark := byte(len(m.funcs))
	m.funcs = append(m.funcs,
		verifFunc{body: []byte{0x41, 0xcd, 0x00, 0x24, 0x00}},
		verifFunc{export: "tinit", body: []byte{0x41, 0x01, 0x41, 0x00, 0x41, 0x01, 0xfc, 0x0c, 0x01, 0x00}},
		verifFunc{export: "viatab", body: []byte{0x41, 0x01, 0x11, mark, 0x00}})
	m.elems = nil
	elemSec := vSection(9, vVec([]byte{0x00, 0x41, 0x00, 0x0b, 0x01, 0x00}, []byte{0x01, 0x00, 0x01, mark}))
	bin := verifAddPassiveDataAfterActive(verifInsertBeforeCode(m.encode(), elemSec), []byte{0xd1, 0xd2, 0xd3, 0xd4})
	a, err := verifInstantiate(ctx, bin, "one", w.store, w.eng, nil, false)
	verifrt.Assert(err == nil, "module accepted")
	if err != nil {
		return
	}
	// the second instance is created before or after the first one is mutated
	late := verifrt.Choose("second-created-late", 2) == 1
	var b *verifInst
	if !late {
		b, err = verifInstantiateAgain(ctx, a, "two")
		verifrt.Assert(err == nil, "second instance of the same compiled module")
		if err != nil {
			return
		}
	}
	x, y := verifrt.U32("x"), verifrt.U32("y")
	switch verifrt.Choose("op", 7) {
	case 0:
		a.inst.ExportedFunction("store").Call(ctx, uint64(x), uint64(y))
	case 1:
		a.inst.ExportedFunction("setg").Call(ctx, uint64(x))
	case 2:
		a.inst.ExportedFunction("grow").Call(ctx, uint64(x))
	case 3:
		verifrt.Assume(y <= 4)
		a.inst.ExportedFunction("fill").Call(ctx, uint64(x), uint64(verifrt.U32("val")), uint64(y))
	case 4:
		a.inst.ExportedFunction("tclear0").Call(ctx)
	case 5:
		a.inst.ExportedFunction("drop").Call(ctx)
	case 6:
		a.inst.ExportedFunction("init").Call(ctx, uint64(x))
		a.inst.ExportedFunction("drop").Call(ctx)
	}
	if late {
		b, err = verifInstantiateAgain(ctx, a, "two")
		verifrt.Assert(err == nil, "second instance of the same compiled module")
		if err != nil {
			return
		}
	}
	// every observable of the second instance is as freshly instantiated
	probe := verifrt.U32("probe")
	verifrt.Assume(uint64(probe)+4 <= 65536)
	r, e := b.inst.ExportedFunction("load").Call(ctx, uint64(probe))
	var want uint32
	for i := uint32(0); i < 4; i++ {
		if p := probe + i; p >= 8 && p < 12 {
			want |= uint32(p-7) << (8 * i)
		}
	}
	verifrt.Assert(e == nil && len(r) == 1 && r[0] == uint64(want), "the other instance's memory still holds exactly its data segment")
	st, e2 := b.inst.ExportedFunction("state").Call(ctx)
	verifrt.Assert(e2 == nil && len(st) == 2 && st[0] == 42 && st[1] == 1, "the other instance's global and memory size are unchanged")
	tn, e3 := b.inst.ExportedFunction("tnull").Call(ctx)
	verifrt.Assert(e3 == nil && len(tn) == 1 && tn[0] == 0, "the other instance's table element is unchanged")
	// its passive segment is intact: memory.init copies it
	_, e4 := b.inst.ExportedFunction("init").Call(ctx, 100)
	r2, e5 := b.inst.ExportedFunction("load").Call(ctx, 100)
	verifrt.Assert(e4 == nil && e5 == nil && len(r2) == 1 && r2[0] == 0xd4d3d2d1, "the other instance's passive data segment is intact (memory.init copies it)")
	// a function reference taken from the passive element segment by THIS instance runs in this instance
	_, e6 := b.inst.ExportedFunction("tinit").Call(ctx)
	_, e7 := b.inst.ExportedFunction("viatab").Call(ctx)
	st2, e8 := b.inst.ExportedFunction("state").Call(ctx)
	verifrt.Assert(e6 == nil && e7 == nil && e8 == nil && len(st2) == 2 && st2[0] == 77, "a function installed from the passive element segment runs in the instance that installed it")
	verifrt.Cover("isolated")
}

// VerifC04_SharedTableCalls: function references placed in a table that two instances of ONE compiled module (and a third,
// separately compiled importer) share, and a function imported directly: whichever instance makes the call and however
// (call_indirect, return_call_indirect, call, return_call), the callee runs in the instance that DEFINED it - it reads and
// writes that instance's global, and nobody else's - for all global values and arguments.
func VerifC04_SharedTableCalls() {
	ctx := context.Background()
	w := newVerifWorld(ctx)
	// T: exports a funcref table of two slots
	t := &verifModule{tableMin: 2, exports: []verifExport{{name: "tab", kind: 1, index: 0}},
		funcs: []verifFunc{{export: "nop", body: []byte{0x01}}}}
	_, err := w.guest(ctx, t, "T", nil, false)
	verifrt.Assert(err == nil, "table exporter accepted")
	if err != nil {
		return
	}
	// M: imports the table; global g; bump(x): g += x, returns g
	m := &verifModule{tableMin: -1,
		imports: []verifImport{{module: "T", name: "tab", kind: 1, desc: append([]byte{0x70}, vLimits(2, -1)...)}},
		globals: []verifGlobal{{typ: vI32, mutable: true, init: []byte{0x41, 0x00}}},
		funcs: []verifFunc{
			{params: []byte{vI32}, results: []byte{vI32}, export: "bump", body: []byte{0x23, 0x00, 0x20, 0x00, 0x6a, 0x24, 0x00, 0x23, 0x00}},
			{params: []byte{vI32}, export: "put", body: []byte{0x20, 0x00, 0xd2, 0x00, 0x26, 0x00}},
			{params: []byte{vI32, vI32}, results: []byte{vI32}, export: "via_call", body: []byte{0x20, 0x01, 0x20, 0x00, 0x11, 0x00, 0x00}},
			{params: []byte{vI32, vI32}, results: []byte{vI32}, export: "via_tail", body: []byte{0x20, 0x01, 0x20, 0x00, 0x13, 0x00, 0x00}},
			{results: []byte{vI32}, export: "get", body: []byte{0x23, 0x00}},
			{params: []byte{vI32}, export: "setg", body: []byte{0x20, 0x00, 0x24, 0x00}},
		}}
	a, err := w.guest(ctx, m, "a", nil, false)
	verifrt.Assert(err == nil, "table importer accepted")
	if err != nil {
		return
	}
	b, err := verifInstantiateAgain(ctx, a, "b")
	verifrt.Assert(err == nil, "second instance of the same compiled module")
	if err != nil {
		return
	}
	// N: separately compiled; imports the table and a.bump directly
	n := &verifModule{tableMin: -1,
		imports: []verifImport{
			{module: "a", name: "bump", params: []byte{vI32}, results: []byte{vI32}},
			{module: "T", name: "tab", kind: 1, desc: append([]byte{0x70}, vLimits(2, -1)...)}},
		funcs: []verifFunc{
			{params: []byte{vI32, vI32}, results: []byte{vI32}, export: "via_call", body: []byte{0x20, 0x01, 0x20, 0x00, 0x11, 0x00, 0x00}},
			{params: []byte{vI32, vI32}, results: []byte{vI32}, export: "via_tail", body: []byte{0x20, 0x01, 0x20, 0x00, 0x13, 0x00, 0x00}},
			{params: []byte{vI32, vI32}, results: []byte{vI32}, export: "direct_call", body: []byte{0x20, 0x01, 0x10, 0x00}},
			{params: []byte{vI32, vI32}, results: []byte{vI32}, export: "direct_tail", body: []byte{0x20, 0x01, 0x12, 0x00}},
		}}
	c, err := w.guest(ctx, n, "c", nil, false)
	verifrt.Assert(err == nil, "function and table importer accepted")
	if err != nil {
		return
	}
	ga, gb, x := verifrt.U32("ga"), verifrt.U32("gb"), verifrt.U32("x")
	_, e1 := a.inst.ExportedFunction("setg").Call(ctx, uint64(ga))
	_, e2 := b.inst.ExportedFunction("setg").Call(ctx, uint64(gb))
	_, e3 := a.inst.ExportedFunction("put").Call(ctx, 0) // slot 0: a.bump
	_, e4 := b.inst.ExportedFunction("put").Call(ctx, 1) // slot 1: b.bump
	verifrt.Assert(e1 == nil && e2 == nil && e3 == nil && e4 == nil, "set-up calls run")
	callers := []*verifInst{a, b, c}
	caller := callers[verifrt.Choose("caller", 3)]
	slot := uint32(verifrt.Choose("slot", 2))
	how := []string{"via_call", "via_tail", "direct_call", "direct_tail"}[verifrt.Choose("how", 4)]
	fn := caller.inst.ExportedFunction(how)
	if fn == nil {
		verifrt.Assume(false) // only the third module has the direct forms
	}
	ownerIsA := slot == 0 || how == "direct_call" || how == "direct_tail"
	r, e := fn.Call(ctx, uint64(slot), uint64(x))
	wantA, wantB := ga, gb
	var want uint32
	if ownerIsA {
		wantA = ga + x
		want = wantA
	} else {
		wantB = gb + x
		want = wantB
	}
	verifrt.Assert(e == nil && len(r) == 1 && r[0] == uint64(want), "the callee computes with the global of the instance that defined it")
	ra, e5 := a.inst.ExportedFunction("get").Call(ctx)
	rb, e6 := b.inst.ExportedFunction("get").Call(ctx)
	verifrt.Assert(e5 == nil && e6 == nil && len(ra) == 1 && len(rb) == 1, "globals readable")
	if e5 == nil && e6 == nil {
		verifrt.Assert(ra[0] == uint64(wantA) && rb[0] == uint64(wantB), "exactly the defining instance's global changed")
	}
	verifrt.Cover("called")
}

// VerifC04_ElementSegmentWritesSharedTable: an active element segment of an importer writes into the SHARED table at
// instantiation, item by item - a `ref.null` item overwrites (clears) the slot, a `ref.func` item installs the importer's
// function - and the exporter observes exactly that through call_indirect afterwards.
func VerifC04_ElementSegmentWritesSharedTable() {
	ctx := context.Background()
	w := newVerifWorld(ctx)
	// T: table of 2 slots, slot 0 and 1 hold T's function seven() ; call(slot) = call_indirect
	t := &verifModule{tableMin: 2, elems: []uint32{0, 0}, exports: []verifExport{{name: "tab", kind: 1, index: 0}},
		funcs: []verifFunc{
			{results: []byte{vI32}, export: "seven", body: []byte{0x41, 0x07}},
			{params: []byte{vI32}, results: []byte{vI32}, export: "call", body: []byte{0x20, 0x00, 0x11, 0x00, 0x00}},
		}}
	vt, err := w.guest(ctx, t, "T", nil, false)
	verifrt.Assert(err == nil, "table exporter accepted")
	if err != nil {
		return
	}
	// B: imports the table; one function nine(); active element segment at offset 0 with expression items
	items := [][]byte{{0xd0, 0x70, 0x0b}, {0xd2, 0x00, 0x0b}} // ref.null func ; ref.func 0 (nine)
	i0, i1 := verifrt.Choose("item0", 2), verifrt.Choose("item1", 2)
	b := &verifModule{tableMin: -1,
		imports: []verifImport{{module: "T", name: "tab", kind: 1, desc: append([]byte{0x70}, vLimits(2, -1)...)}},
		funcs:   []verifFunc{{results: []byte{vI32}, export: "nine", body: []byte{0x41, 0x09}}}}
	seg := append([]byte{0x04, 0x41, 0x00, 0x0b, 0x02}, append(append([]byte{}, items[i0]...), items[i1]...)...)
	bin := verifInsertBeforeCode(b.encode(), vSection(9, vVec(seg)))
	_, err = verifInstantiate(ctx, bin, "B", w.store, w.eng, nil, false)
	verifrt.Assert(err == nil, "table importer with an expression element segment accepted")
	if err != nil {
		return
	}
	for slot, it := range []int{i0, i1} {
		r, e := vt.inst.ExportedFunction("call").Call(ctx, uint64(slot))
		if it == 0 {
			verifrt.Assert(e != nil, "a ref.null item of the importer's active segment cleared the shared slot: call_indirect traps")
		} else {
			verifrt.Assert(e == nil && len(r) == 1 && r[0] == 9, "a ref.func item of the importer's active segment installed the importer's function in the shared slot")
		}
	}
	verifrt.Cover("written")
}

// VerifC04_FunctionImportTypes: a function import is accepted exactly when its declared type equals the function's real type
// - also when the function is reached through a forwarder that itself imports it (and re-exports it) among imports of
// other kinds in every order, so that import indexes, function indexes and type indexes all differ.
func VerifC04_FunctionImportTypes() {
	ctx := context.Background()
	w := newVerifWorld(ctx)
	// A: memory "mem", g: ()->(), f: (i64)->(i64)
	a := &verifModule{tableMin: -1, hasMem: true, memMin: 1, memMax: 1, exports: []verifExport{{name: "mem", kind: 2, index: 0}},
		funcs: []verifFunc{
			{export: "g", body: []byte{0x01}},
			{params: []byte{vI64}, results: []byte{vI64}, export: "f", body: []byte{0x20, 0x00}},
		}}
	_, err := w.guest(ctx, a, "A", nil, false)
	verifrt.Assert(err == nil, "exporter accepted")
	if err != nil {
		return
	}
	// B: imports g, mem and f from A in one of 6 orders and re-exports f
	impG := verifImport{module: "A", name: "g"}
	impM := verifImport{module: "A", name: "mem", kind: 2, desc: vLimits(1, 1)}
	impF := verifImport{module: "A", name: "f", params: []byte{vI64}, results: []byte{vI64}}
	orders := [][3]verifImport{{impG, impM, impF}, {impG, impF, impM}, {impM, impG, impF}, {impM, impF, impG}, {impF, impG, impM}, {impF, impM, impG}}
	ord := orders[verifrt.Choose("order", 6)]
	fIndex := uint32(0) // function index of f inside B = number of function imports before it
	for _, im := range ord {
		if im.name == "f" {
			break
		}
		if im.kind == 0 {
			fIndex++
		}
	}
	b := &verifModule{tableMin: -1, imports: ord[:], exports: []verifExport{{name: "f", kind: 0, index: fIndex}},
		funcs: []verifFunc{{export: "nop", body: []byte{0x01}}}}
	_, err = w.guest(ctx, b, "B", nil, false)
	verifrt.Assert(err == nil, "forwarder accepted")
	if err != nil {
		return
	}
	// C: imports f - from A directly or through B - with a declared type that is right or wrong
	from := []string{"A", "B"}[verifrt.Choose("through", 2)]
	decl := [][2][]byte{{{vI64}, {vI64}}, {{}, {}}, {{vI32}, {vI64}}, {{vI64}, {}}}[verifrt.Choose("declared", 4)]
	c := &verifModule{tableMin: -1, imports: []verifImport{{module: from, name: "f", params: decl[0], results: decl[1]}},
		funcs: []verifFunc{{params: []byte{vI64}, results: []byte{vI64}, export: "run", body: []byte{0x20, 0x00}}}}
	vc, err := w.guest(ctx, c, "C", nil, false)
	right := len(decl[0]) == 1 && decl[0][0] == vI64 && len(decl[1]) == 1
	verifrt.Assert((err == nil) == right, "a function import is accepted exactly when its declared type is the function's type")
	if err == nil {
		_ = vc
		verifrt.Cover("accepted")
	} else {
		verifrt.Cover("refused")
	}
}

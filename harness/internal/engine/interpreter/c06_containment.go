//go:build verif

package interpreter

import (
	"context"
	"errors"

	"github.com/tetratelabs/wazero/api"
	"github.com/tetratelabs/wazero/internal/verifrt"
	"github.com/tetratelabs/wazero/internal/wasmruntime"
	"github.com/tetratelabs/wazero/sys"
)

var errVerifHost = errors.New("host failure")

// VerifC06_Containment: a guest function records its argument in memory and in a global, then fails in one of the
// documented ways at nesting depth 1 or 2 (guest -> host -> guest -> failure); the caller gets an error of the documented
// kind, the effects made before the failure persist, the call engine is reusable, and a following call on the same
// function object and on the instance behaves exactly like on an instance that never failed.
//verif:opts split=kind:8 maxsteps=6000000
func VerifC06_Containment() {
	ctx := context.Background()
	kind := verifrt.Choose("kind", 8)
	nested := verifrt.Choose("nested", 2) == 1
	code := verifrt.U32("code")
	x := verifrt.U32("x")
	w := newVerifWorld(ctx)
	var inner api.Function
	_, err := w.hostModule(ctx, []verifHost{
		{name: "fail", fn: func(ctx context.Context, mod api.Module, _ []uint64) {
			switch kind {
			case 4:
				panic(sys.NewExitError(code))
			case 5:
				panic(errVerifHost)
			case 6:
				panic("a string")
			case 7:
				var m map[int]int
				m[0] = 1 // Go run-time error inside the host function
			}
		}},
		{name: "reenter", params: []byte{vI32}, fn: func(ctx context.Context, mod api.Module, stack []uint64) {
			_, e := inner.Call(ctx, stack[0])
			if e != nil {
				panic(e)
			}
		}},
	}, nil)
	verifrt.Assert(err == nil, "host module accepted")
	if err != nil {
		return
	}
	// failing tail per kind (after the effects)
	var tail []byte
	switch kind {
	case 0:
		tail = []byte{0x00} // unreachable
	case 1:
		tail = []byte{0x41, 0x01, 0x41, 0x00, 0x6d, 0x1a} // 1 / 0
	case 2:
		tail = []byte{0x41, 0x7f, 0x28, 0x00, 0x00, 0x1a} // load at 0xffffffff
	case 3:
		tail = []byte{0x20, 0x00, 0x10, 0x02} // unbounded recursion: call self (function index 2)
	default:
		tail = []byte{0x10, 0x00} // call host "fail"
	}
	// func2 work(x): mem[0] = x ; global0 = x ; <tail>
	work := append([]byte{0x41, 0x00, 0x20, 0x00, 0x36, 0x02, 0x00, 0x20, 0x00, 0x24, 0x00}, tail...)
	// func3 outer(x): call host reenter(x)  -- guest -> host -> guest(work)
	// func4 get(): mem[0] + global0 ... returned as two results
	g := &verifModule{tableMin: -1, hasMem: true, memMin: 1, memMax: 1,
		globals: []verifGlobal{{typ: vI32, mutable: true, init: []byte{0x41, 0x00}}},
		imports: []verifImport{{module: "env", name: "fail"}, {module: "env", name: "reenter", params: []byte{vI32}}},
		funcs: []verifFunc{
			{params: []byte{vI32}, export: "work", body: work},
			{params: []byte{vI32}, export: "outer", body: []byte{0x20, 0x00, 0x10, 0x01}},
			{results: []byte{vI32, vI32}, export: "get", body: []byte{0x41, 0x00, 0x28, 0x02, 0x00, 0x23, 0x00}},
			{params: []byte{vI32, vI32}, results: []byte{vI32}, export: "add", body: []byte{0x20, 0x00, 0x20, 0x01, 0x6a}},
		}}
	vi, err := w.guest(ctx, g, "guest", nil, false)
	verifrt.Assert(err == nil, "guest accepted")
	if err != nil {
		return
	}
	inner = vi.inst.ExportedFunction("work")
	entry := inner
	if nested {
		entry = vi.inst.ExportedFunction("outer")
	}
	_, err = entry.Call(ctx, uint64(x))
	verifrt.Assert(err != nil, "the failing call returns an error")
	if err == nil {
		return
	}
	exitErr, isExit := err.(*sys.ExitError)
	switch kind {
	case 0:
		verifrt.Assert(errors.Is(err, wasmruntime.ErrRuntimeUnreachable), "unreachable is reported as a runtime trap error")
	case 1:
		verifrt.Assert(errors.Is(err, wasmruntime.ErrRuntimeIntegerDivideByZero), "division by zero is reported as a runtime trap error")
	case 2:
		verifrt.Assert(errors.Is(err, wasmruntime.ErrRuntimeOutOfBoundsMemoryAccess), "out-of-bounds access is reported as a runtime trap error")
	case 3:
		verifrt.Assert(errors.Is(err, wasmruntime.ErrRuntimeStackOverflow), "unbounded recursion is reported as a stack-overflow error")
	case 4:
		verifrt.Assert(isExit && exitErr.ExitCode() == code, "a guest exit is reported as an exit error carrying the exit code")
	case 5:
		verifrt.Assert(errors.Is(err, errVerifHost), "a host panic with an error is reported wrapping that error")
	case 6, 7:
		verifrt.Assert(!isExit, "a host panic is reported as an error")
	}
	// effects before the failure persist
	st, e2 := vi.inst.ExportedFunction("get").Call(ctx)
	verifrt.Assert(e2 == nil && len(st) == 2 && st[0] == uint64(x) && st[1] == uint64(x), "effects made before the failure persist")
	// the same function object and the instance keep working
	a, b := verifrt.U32("a"), verifrt.U32("b")
	r, e3 := vi.inst.ExportedFunction("add").Call(ctx, uint64(a), uint64(b))
	verifrt.Assert(e3 == nil && len(r) == 1 && r[0] == uint64(a+b), "the instance keeps computing correctly after the failure")
	_, e4 := entry.Call(ctx, uint64(x))
	verifrt.Assert(e4 != nil, "the same function object fails the same way again (no stale state)")
	ce := entry.(*callEngine)
	verifrt.Assert(len(ce.stack) == 0 && len(ce.frames) == 0, "call engine stack and frames are empty after a failed call")
	verifrt.Cover("contained")
}

// VerifC06_ExitInImportedModule: the call is made on module "app", which runs a function imported from module "lib"; lib's
// function reaches a host function that exits the module it was called from (what WASI proc_exit does) - by a direct call
// or through lib's table. The host function must be handed the instance whose code called it (lib): afterwards lib is
// closed, app - which never exited - is open, registered and keeps computing, and the caller got the exit error.
func VerifC06_ExitInImportedModule() {
	ctx := context.Background()
	w := newVerifWorld(ctx)
	code := verifrt.U32("code")
	var calledFrom string
	_, err := w.hostModule(ctx, []verifHost{{name: "exit", fn: func(ctx context.Context, mod api.Module, _ []uint64) {
		calledFrom = mod.Name()
		_ = mod.CloseWithExitCode(ctx, code)
		panic(sys.NewExitError(code))
	}}}, nil)
	verifrt.Assert(err == nil, "host module accepted")
	if err != nil {
		return
	}
	// lib: imports env.exit (function 0), has it in its table; direct() = call 0 ; indirect() = call_indirect table[0]
	lib := &verifModule{tableMin: 1, elems: []uint32{0}, imports: []verifImport{{module: "env", name: "exit"}},
		funcs: []verifFunc{
			{export: "direct", body: []byte{0x10, 0x00}},
			{export: "indirect", body: []byte{0x41, 0x00, 0x11, 0x00, 0x00}},
		}}
	vl, err := w.guest(ctx, lib, "lib", nil, false)
	verifrt.Assert(err == nil, "lib accepted")
	if err != nil {
		return
	}
	how := []string{"direct", "indirect"}[verifrt.Choose("how", 2)]
	app := &verifModule{tableMin: -1, imports: []verifImport{{module: "lib", name: how}},
		funcs: []verifFunc{
			{export: "run", body: []byte{0x10, 0x00}},
			{results: []byte{vI32}, export: "ping", body: []byte{0x41, 0x07}},
		}}
	va, err := w.guest(ctx, app, "app", nil, false)
	verifrt.Assert(err == nil, "app accepted")
	if err != nil {
		return
	}
	_, err = va.inst.ExportedFunction("run").Call(ctx)
	ec, isExit := verifExitCode(err)
	verifrt.Assert(isExit && ec == code, "the caller receives the exit error carrying the code")
	verifrt.Assert(calledFrom == "lib", "the host function is handed the instance whose code called it")
	verifrt.Assert(vl.inst.IsClosed(), "the instance that exited is closed")
	verifrt.Assert(!va.inst.IsClosed() && w.store.Module("app") != nil, "the instance that did not exit stays open and registered")
	r, err := va.inst.ExportedFunction("ping").Call(ctx)
	verifrt.Assert(err == nil && len(r) == 1 && r[0] == 7, "the instance that did not exit keeps computing")
	verifrt.Cover("exited")
}

//go:build verif

package interpreter

import (
	"context"

	"github.com/tetratelabs/wazero/internal/leb128"
	"github.com/tetratelabs/wazero/internal/verifrt"
	"github.com/tetratelabs/wazero/internal/wasm/binary"
)

var verifConstOf = map[byte][]byte{vI32: {0x41, 0x05}, vI64: {0x42, 0x05}, vF32: {0x43, 0, 0, 0xa0, 0x40}, vF64: {0x44, 0, 0, 0, 0, 0, 0, 0x14, 0x40}}

// VerifC03_IfBlockTypes: a multi-value `if` without `else` typed (p) -> (r) is valid exactly when p == r (the implicit else
// passes the parameter through); for every p, r in {i32,i64,f32,f64}: the module is accepted iff valid, and when accepted
// it runs on the interpreter without an internal failure and returns the specified value for all operand values.
func VerifC03_IfBlockTypes() {
	ctx := context.Background()
	pt, rt := verifTypes[verifrt.Choose("p", 4)], verifTypes[verifrt.Choose("r", 4)]
	// func (param p i32) (result r): local.get 0 ; local.get 1 ; if (type 1) drop <const r> end
	m := &verifModule{tableMin: -1, extraTypes: [][2][]byte{{{pt}, {rt}}},
		funcs: []verifFunc{{params: []byte{pt, vI32}, results: []byte{rt}, export: "f",
			body: append(append([]byte{0x20, 0x00, 0x20, 0x01, 0x04, 0x01, 0x1a}, verifConstOf[rt]...), 0x0b)}}}
	vi, err := verifInstantiate(ctx, m.encode(), "m", nil, nil, nil, false)
	verifrt.Assert((err == nil) == (pt == rt), "an if without else typed (p)->(r) is accepted exactly when p == r")
	if err != nil {
		verifrt.Cover("rejected")
		return
	}
	x := verifSlot("x", pt)
	c := verifrt.U32("c")
	res, err := vi.inst.ExportedFunction("f").Call(ctx, x, uint64(c))
	verifrt.Assert(err == nil && len(res) == 1, "an accepted module runs without an internal failure")
	if err == nil && len(res) == 1 && pt == rt {
		if c == 0 {
			verifrt.Assert(res[0] == x, "the implicit else passes the parameter through")
		}
	}
	verifrt.Cover("accepted")
}

// verifInsertBeforeCode inserts a section before the code section (id 10).
func verifInsertBeforeCode(bin []byte, section []byte) []byte {
	i := 8
	for i < len(bin) {
		if bin[i] == 10 {
			out := append([]byte{}, bin[:i]...)
			out = append(out, section...)
			return append(out, bin[i:]...)
		}
		sz, n, _ := leb128.LoadUint32(bin[i+1:])
		i += 1 + int(n) + int(sz)
	}
	return append(bin, section...)
}

// VerifC03_RefFuncIndex: `ref.func x` in a function body is valid exactly when x is a function index the module declares
// outside function bodies (exports, element segments, global initialisers). The module declares functions 0 (export) and 1
// (element item `ref.func 1`); its element segment also holds an item `global.get 0` (resolved from an imported funcref
// global), which declares no function. For EVERY 32-bit x (patched into the body as a 5-byte LEB128): decode + Validate
// accept iff x is 0 or 1.
func VerifC03_RefFuncIndex() {
	x := verifrt.U32("x")
	body := []byte{0xd2, byte(x) | 0x80, byte(x>>7) | 0x80, byte(x>>14) | 0x80, byte(x>>21) | 0x80, byte(x>>28) & 0x0f, 0x1a}
	m := &verifModule{tableMin: 2,
		imports: []verifImport{{module: "A", name: "g", kind: 3, desc: []byte{0x70, 0x00}}},
		funcs: []verifFunc{
			{export: "f", body: body},
			{body: []byte{0x01}},
			{body: []byte{0x01}},
		}}
	// element segment, flag 4 (active, table 0, expression items): offset i32.const 0 ; items: global.get 0 ; ref.func 1
	elem := []byte{0x04, 0x41, 0x00, 0x0b, 0x02, 0x23, 0x00, 0x0b, 0xd2, 0x01, 0x0b}
	bin := verifInsertBeforeCode(m.encode(), vSection(9, vVec(elem)))
	mod, err := binary.DecodeModule(bin, verifFeatures, 65536, false, false, false)
	verifrt.Assert(err == nil, "the module decodes")
	if err != nil {
		return
	}
	err = mod.Validate(verifFeatures)
	verifrt.Assert((err == nil) == (x == 0 || x == 1), "ref.func x is accepted exactly when x is a declared function index")
	if err == nil {
		verifrt.Cover("accepted")
	} else {
		verifrt.Cover("rejected")
	}
}

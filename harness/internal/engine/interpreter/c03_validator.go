//go:build verif

package interpreter

import (
	"context"

	"github.com/tetratelabs/wazero/internal/verifrt"
)

var verifConstOf = map[byte][]byte{vI32: {0x41, 0x05}, vI64: {0x42, 0x05}, vF32: {0x43, 0, 0, 0xa0, 0x40}, vF64: {0x44, 0, 0, 0, 0, 0, 0, 0x14, 0x40}}

// VerifC03_IfBlockTypes: a multi-value `if` without `else` typed (p) -> (r) is valid exactly when p == r (the implicit else
// passes the parameter through); for every p, r in {i32,i64,f32,f64}: the module is accepted iff valid, and when accepted
// it runs on the interpreter without an internal failure and returns the specified value for all operand values.
func VerifC03_IfBlockTypes() {
	ctx := context.Background()
	pt, rt := verifTypes[verifrt.Choose("p", 4)], verifTypes[verifrt.Choose("r", 4)]
	// func (param p i32) (result r): local.get 0 ; local.get 1 ; if (type 1) drop <const r> end
	m := &verifModule{tableMin: -1, extraTypes: [][2][]byte{{{pt}, {rt}}},
		funcs: []verifFunc{{params: []byte{pt, vI32}, results: []byte{rt}, export: "f",
			body: append(append([]byte{0x20, 0x00, 0x20, 0x01, 0x04, 0x01, 0x1a}, verifConstOf[rt]...), 0x0b)}}}
	vi, err := verifInstantiate(ctx, m.encode(), "m", nil, nil, nil, false)
	verifrt.Assert((err == nil) == (pt == rt), "an if without else typed (p)->(r) is accepted exactly when p == r")
	if err != nil {
		verifrt.Cover("rejected")
		return
	}
	x := verifSlot("x", pt)
	c := verifrt.U32("c")
	res, err := vi.inst.ExportedFunction("f").Call(ctx, x, uint64(c))
	verifrt.Assert(err == nil && len(res) == 1, "an accepted module runs without an internal failure")
	if err == nil && len(res) == 1 && pt == rt {
		if c == 0 {
			verifrt.Assert(res[0] == x, "the implicit else passes the parameter through")
		}
	}
	verifrt.Cover("accepted")
}

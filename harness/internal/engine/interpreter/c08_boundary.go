//go:build verif

package interpreter

import (
	"context"

	"github.com/tetratelabs/wazero/api"
	"github.com/tetratelabs/wazero/internal/verifrt"
)

var verifTypes = []byte{vI32, vI64, vF32, vF64}

func verifSlot(name string, t byte) uint64 {
	v := verifrt.U64(name)
	if t == vI32 || t == vF32 {
		return uint64(uint32(v)) // a well-formed 32-bit slot
	}
	return v
}

// VerifC08_StackHostCall: for every signature of 0..3 params and 0..2 results over {i32,i64,f32,f64} and all values,
// a stack-based host function receives exactly what the guest passed, and both the guest and the Go caller receive
// exactly what the host returned (Call and CallWithStack forms).
//verif:opts maxpaths=40000 wall=900
func VerifC08_StackHostCall() {
	ctx := context.Background()
	np, nr := verifrt.Choose("nparams", 4), verifrt.Choose("nresults", 3)
	var pt, rt []byte
	for i := 0; i < np; i++ {
		pt = append(pt, verifTypes[verifrt.Choose("ptype", 4)])
	}
	for i := 0; i < nr; i++ {
		rt = append(rt, verifTypes[verifrt.Choose("rtype", 4)])
	}
	args := make([]uint64, np)
	for i := range args {
		args[i] = verifSlot([]string{"a0", "a1", "a2"}[i], pt[i])
	}
	rets := make([]uint64, nr)
	for i := range rets {
		rets[i] = verifSlot([]string{"r0", "r1"}[i], rt[i])
	}
	var seen []uint64
	calls := 0
	w := newVerifWorld(ctx)
	_, err := w.hostModule(ctx, []verifHost{{name: "h", params: pt, results: rt, fn: func(_ context.Context, _ api.Module, stack []uint64) {
		calls++
		seen = append([]uint64(nil), stack[:np]...)
		copy(stack, rets)
	}}}, nil)
	verifrt.Assert(err == nil, "host module accepted")
	if err != nil {
		return
	}
	// guest: (func (export "f") (param pt...) (result rt...) local.get* ; call $h)
	body := verifBody(np, []byte{0x10, 0x00})
	g := &verifModule{tableMin: -1, imports: []verifImport{{module: "env", name: "h", params: pt, results: rt}},
		funcs: []verifFunc{{params: pt, results: rt, export: "f", body: body}}}
	vi, err := w.guest(ctx, g, "guest", nil, false)
	verifrt.Assert(err == nil, "guest module accepted")
	if err != nil {
		return
	}
	f := vi.inst.ExportedFunction("f")
	var res []uint64
	if verifrt.Choose("form", 2) == 0 {
		res, err = f.Call(ctx, args...)
	} else {
		n := np
		if nr > n {
			n = nr
		}
		stack := make([]uint64, n)
		copy(stack, args)
		err = f.CallWithStack(ctx, stack)
		res = stack[:nr]
	}
	verifrt.Assert(err == nil && calls == 1, "call succeeds and reaches the host once")
	ok := len(seen) == np && len(res) == nr
	for i := 0; ok && i < np; i++ {
		verifrt.Assert(seen[i] == args[i], "host receives exactly the value the guest passed")
	}
	for i := 0; ok && i < nr; i++ {
		verifrt.Assert(res[i] == rets[i], "caller receives exactly the value the host returned")
	}
	verifrt.Assert(ok, "arity preserved")
	verifrt.Cover("crossed")
}

// VerifC08_EncodeDecode: api value encoders/decoders round-trip bit for bit.
func VerifC08_EncodeDecode() {
	x := verifrt.U64("x")
	verifrt.Assert(api.DecodeU32(api.EncodeU32(uint32(x))) == uint32(x), "u32 round trip")
	verifrt.Assert(api.DecodeI32(api.EncodeI32(int32(x))) == int32(x), "i32 round trip")
	verifrt.Assert(api.EncodeI32(int32(x))>>32 == 0 && api.EncodeU32(uint32(x))>>32 == 0, "32-bit values are encoded as zero-extended slots")
	verifrt.Assert(api.EncodeI64(int64(x)) == x, "i64 encode")
	verifrt.Assert(api.EncodeF32(api.DecodeF32(uint64(uint32(x)))) == uint64(uint32(x)), "f32 round trip keeps NaN payloads")
	verifrt.Assert(api.EncodeF64(api.DecodeF64(x)) == x, "f64 round trip keeps NaN payloads")
	verifrt.Assert(api.DecodeExternref(api.EncodeExternref(uintptr(x))) == uintptr(x), "externref round trip")
	verifrt.Cover("codec")
}

// VerifC08_ReflectHostCall: host functions defined by reflection, for all values: the host receives exactly the guest's
// values, the guest receives exactly the host's results as well-formed slots (so that guest arithmetic on them is right).
func VerifC08_ReflectHostCall() {
	ctx := context.Background()
	w := newVerifWorld(ctx)
	var pt, rt []byte
	var args, want []uint64
	var host interface{}
	var gotA, gotB, gotC, gotD uint64
	switch verifrt.Choose("sig", 4) {
	case 0: // integers of both widths and signs, with context and module
		r0, r1 := verifrt.I32("r0"), verifrt.U64("r1")
		host = func(_ context.Context, _ api.Module, a int32, b uint32, c int64, d uint64) (int32, uint64) {
			gotA, gotB, gotC, gotD = uint64(uint32(a)), uint64(b), uint64(c), d
			return r0, r1
		}
		pt, rt = []byte{vI32, vI32, vI64, vI64}, []byte{vI32, vI64}
		args = []uint64{verifSlot("a0", vI32), verifSlot("a1", vI32), verifrt.U64("a2"), verifrt.U64("a3")}
		want = []uint64{uint64(uint32(r0)), r1}
	case 1: // floats, context only
		r0, r1 := verifrt.F32("r0"), verifrt.F64("r1")
		host = func(_ context.Context, a float32, b float64) (float32, float64) {
			gotA, gotB = uint64(api.EncodeF32(a)), api.EncodeF64(b)
			return api.DecodeF32(uint64(r0)), api.DecodeF64(r1)
		}
		pt, rt = []byte{vF32, vF64}, []byte{vF32, vF64}
		args = []uint64{verifSlot("a0", vF32), verifrt.U64("a1")}
		want = []uint64{uint64(r0), r1}
	case 2: // no context
		r0 := verifrt.U32("r0")
		host = func(a uint32) uint32 {
			gotA = uint64(a)
			return r0
		}
		pt, rt = []byte{vI32}, []byte{vI32}
		args = []uint64{verifSlot("a0", vI32)}
		want = []uint64{uint64(r0)}
	case 3: // int64 / int32 results only
		r0, r1 := verifrt.I64("r0"), verifrt.I32("r1")
		host = func(_ context.Context) (int64, int32) { return r0, r1 }
		rt = []byte{vI64, vI32}
		want = []uint64{uint64(r0), uint64(uint32(r1))}
	}
	_, err := w.hostModule(ctx, []verifHost{{name: "h", reflectFn: host}}, nil)
	verifrt.Assert(err == nil, "host module accepted")
	if err != nil {
		return
	}
	g := &verifModule{tableMin: -1, imports: []verifImport{{module: "env", name: "h", params: pt, results: rt}},
		funcs: []verifFunc{{params: pt, results: rt, export: "f", body: verifBody(len(pt), []byte{0x10, 0x00})}}}
	vi, err := w.guest(ctx, g, "guest", nil, false)
	verifrt.Assert(err == nil, "guest module accepted")
	if err != nil {
		return
	}
	res, err := vi.inst.ExportedFunction("f").Call(ctx, args...)
	verifrt.Assert(err == nil && len(res) == len(want), "call succeeds")
	if err != nil || len(res) != len(want) {
		return
	}
	got := []uint64{gotA, gotB, gotC, gotD}
	for i := range args {
		verifrt.Assert(got[i] == args[i], "reflection-defined host function receives exactly the guest's values")
	}
	for i := range want {
		verifrt.Assert(res[i] == want[i], "guest and caller receive exactly the host's results, as well-formed slots")
	}
	verifrt.Cover("reflected")
}

// VerifC08_ReflectResultInGuest: the guest computes with a host result: (h() <u -1) must be (r != -1).
func VerifC08_ReflectResultInGuest() {
	ctx := context.Background()
	w := newVerifWorld(ctx)
	r := verifrt.I32("r")
	_, err := w.hostModule(ctx, []verifHost{{name: "h", reflectFn: func() int32 { return r }}}, nil)
	verifrt.Assert(err == nil, "host module accepted")
	if err != nil {
		return
	}
	// call $h ; i32.const -1 ; i32.lt_u
	g := &verifModule{tableMin: -1, imports: []verifImport{{module: "env", name: "h", results: []byte{vI32}}},
		funcs: []verifFunc{{results: []byte{vI32}, export: "f", body: []byte{0x10, 0x00, 0x41, 0x7f, 0x49}}}}
	vi, err := w.guest(ctx, g, "guest", nil, false)
	verifrt.Assert(err == nil, "guest module accepted")
	if err != nil {
		return
	}
	res, err := vi.inst.ExportedFunction("f").Call(ctx)
	verifrt.Assert(err == nil && len(res) == 1 && res[0] == b2u(uint32(r) < 0xffffffff), "guest arithmetic on a host result sees the returned 32-bit value")
	verifrt.Cover("compared")
}

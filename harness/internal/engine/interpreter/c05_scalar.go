//go:build verif

package interpreter

import (
	"context"
	"errors"
	"math"
	"math/bits"

	"github.com/tetratelabs/wazero/internal/verifrt"
	"github.com/tetratelabs/wazero/internal/wasmruntime"
)

// verifRun1 runs a one-function module (params -> results, body) through the real pipeline on the interpreter.
func verifRun1(params, results []byte, body []byte, args ...uint64) ([]uint64, error) {
	ctx := context.Background()
	m := &verifModule{tableMin: -1, funcs: []verifFunc{{params: params, results: results, export: "f", body: body}}}
	vi, err := verifInstantiate(ctx, m.encode(), "m", nil, nil, nil, false)
	if err != nil {
		verifrt.Assert(false, "by-construction valid module is accepted")
		verifrt.Assume(false)
	}
	return vi.inst.ExportedFunction("f").Call(ctx, args...)
}

func verifOp(op ...byte) []byte { return op }

func verifBody(nparams int, op []byte) []byte {
	var b []byte
	for i := 0; i < nparams; i++ {
		b = append(b, 0x20, byte(i))
	}
	return append(b, op...)
}

const (
	trapNone = iota
	trapDivZero
	trapOverflow
	trapInvalidConv
)

func verifTrapOf(err error) int {
	switch {
	case err == nil:
		return trapNone
	case errors.Is(err, wasmruntime.ErrRuntimeIntegerDivideByZero):
		return trapDivZero
	case errors.Is(err, wasmruntime.ErrRuntimeIntegerOverflow):
		return trapOverflow
	case errors.Is(err, wasmruntime.ErrRuntimeInvalidConversionToInteger):
		return trapInvalidConv
	}
	return -1
}

func verifCheck(res []uint64, err error, wantTrap int, want uint64, what string) {
	verifrt.Assert(verifTrapOf(err) == wantTrap, what+": trap kind")
	if wantTrap == trapNone && err == nil {
		verifrt.Assert(len(res) == 1 && res[0] == want, what+": result (as a zero-extended 64-bit slot)")
	}
}

func b2u(b bool) uint64 {
	if b {
		return 1
	}
	return 0
}

// VerifC05_I32: every i32 arithmetic, bit and comparison instruction for all operand values.
func VerifC05_I32() {
	x, y := verifrt.U32("x"), verifrt.U32("y")
	sx, sy := int32(x), int32(y)
	k := verifrt.Choose("op", 29)
	var op byte
	var want uint64
	trap := trapNone
	n := 2
	switch k {
	case 0:
		op, want = 0x6a, uint64(x+y)
	case 1:
		op, want = 0x6b, uint64(x-y)
	case 2:
		op, want = 0x6c, uint64(x*y)
	case 3: // div_s
		op = 0x6d
		if y == 0 {
			trap = trapDivZero
		} else if sx == math.MinInt32 && sy == -1 {
			trap = trapOverflow
		} else {
			want = uint64(uint32(sx / sy))
		}
	case 4:
		op = 0x6e
		if y == 0 {
			trap = trapDivZero
		} else {
			want = uint64(x / y)
		}
	case 5: // rem_s
		op = 0x6f
		if y == 0 {
			trap = trapDivZero
		} else if sy == -1 {
			want = 0
		} else {
			want = uint64(uint32(sx % sy))
		}
	case 6:
		op = 0x70
		if y == 0 {
			trap = trapDivZero
		} else {
			want = uint64(x % y)
		}
	case 7:
		op, want = 0x71, uint64(x&y)
	case 8:
		op, want = 0x72, uint64(x|y)
	case 9:
		op, want = 0x73, uint64(x^y)
	case 10:
		op, want = 0x74, uint64(x<<(y%32))
	case 11:
		op, want = 0x75, uint64(uint32(sx>>(y%32)))
	case 12:
		op, want = 0x76, uint64(x>>(y%32))
	case 13:
		op, want = 0x77, uint64(x<<(y%32)|x>>((32-y%32)%32))
	case 14:
		op, want = 0x78, uint64(x>>(y%32)|x<<((32-y%32)%32))
	case 15:
		op, want, n = 0x67, uint64(bits.LeadingZeros32(x)), 1
	case 16:
		op, want, n = 0x68, uint64(bits.TrailingZeros32(x)), 1
	case 17:
		op, want, n = 0x69, uint64(bits.OnesCount32(x)), 1
	case 18:
		op, want, n = 0x45, b2u(x == 0), 1
	case 19:
		op, want = 0x46, b2u(x == y)
	case 20:
		op, want = 0x47, b2u(x != y)
	case 21:
		op, want = 0x48, b2u(sx < sy)
	case 22:
		op, want = 0x49, b2u(x < y)
	case 23:
		op, want = 0x4a, b2u(sx > sy)
	case 24:
		op, want = 0x4b, b2u(x > y)
	case 25:
		op, want = 0x4c, b2u(sx <= sy)
	case 26:
		op, want = 0x4d, b2u(x <= y)
	case 27:
		op, want = 0x4e, b2u(sx >= sy)
	case 28:
		op, want = 0x4f, b2u(x >= y)
	}
	var res []uint64
	var err error
	if n == 2 {
		res, err = verifRun1([]byte{vI32, vI32}, []byte{vI32}, verifBody(2, verifOp(op)), uint64(x), uint64(y))
	} else {
		res, err = verifRun1([]byte{vI32}, []byte{vI32}, verifBody(1, verifOp(op)), uint64(x))
	}
	verifCheck(res, err, trap, want, "i32 op")
	verifrt.Cover("i32")
}

// VerifC05_I64: every i64 arithmetic, bit and comparison instruction for all operand values.
func VerifC05_I64() {
	x, y := verifrt.U64("x"), verifrt.U64("y")
	sx, sy := int64(x), int64(y)
	k := verifrt.Choose("op", 29)
	var op byte
	var want uint64
	trap := trapNone
	n := 2
	rt := vI64
	switch k {
	case 0:
		op, want = 0x7c, x+y
	case 1:
		op, want = 0x7d, x-y
	case 2:
		op, want = 0x7e, x*y
	case 3:
		op = 0x7f
		if y == 0 {
			trap = trapDivZero
		} else if sx == math.MinInt64 && sy == -1 {
			trap = trapOverflow
		} else {
			want = uint64(sx / sy)
		}
	case 4:
		op = 0x80
		if y == 0 {
			trap = trapDivZero
		} else {
			want = x / y
		}
	case 5:
		op = 0x81
		if y == 0 {
			trap = trapDivZero
		} else if sy == -1 {
			want = 0
		} else {
			want = uint64(sx % sy)
		}
	case 6:
		op = 0x82
		if y == 0 {
			trap = trapDivZero
		} else {
			want = x % y
		}
	case 7:
		op, want = 0x83, x&y
	case 8:
		op, want = 0x84, x|y
	case 9:
		op, want = 0x85, x^y
	case 10:
		op, want = 0x86, x<<(y%64)
	case 11:
		op, want = 0x87, uint64(sx>>(y%64))
	case 12:
		op, want = 0x88, x>>(y%64)
	case 13:
		op, want = 0x89, x<<(y%64)|x>>((64-y%64)%64)
	case 14:
		op, want = 0x8a, x>>(y%64)|x<<((64-y%64)%64)
	case 15:
		op, want, n = 0x79, uint64(bits.LeadingZeros64(x)), 1
	case 16:
		op, want, n = 0x7a, uint64(bits.TrailingZeros64(x)), 1
	case 17:
		op, want, n = 0x7b, uint64(bits.OnesCount64(x)), 1
	case 18:
		op, want, n, rt = 0x50, b2u(x == 0), 1, vI32
	case 19:
		op, want, rt = 0x51, b2u(x == y), vI32
	case 20:
		op, want, rt = 0x52, b2u(x != y), vI32
	case 21:
		op, want, rt = 0x53, b2u(sx < sy), vI32
	case 22:
		op, want, rt = 0x54, b2u(x < y), vI32
	case 23:
		op, want, rt = 0x55, b2u(sx > sy), vI32
	case 24:
		op, want, rt = 0x56, b2u(x > y), vI32
	case 25:
		op, want, rt = 0x57, b2u(sx <= sy), vI32
	case 26:
		op, want, rt = 0x58, b2u(x <= y), vI32
	case 27:
		op, want, rt = 0x59, b2u(sx >= sy), vI32
	case 28:
		op, want, rt = 0x5a, b2u(x >= y), vI32
	}
	var res []uint64
	var err error
	if n == 2 {
		res, err = verifRun1([]byte{vI64, vI64}, []byte{rt}, verifBody(2, verifOp(op)), x, y)
	} else {
		res, err = verifRun1([]byte{vI64}, []byte{rt}, verifBody(1, verifOp(op)), x)
	}
	verifCheck(res, err, trap, want, "i64 op")
	verifrt.Cover("i64")
}

// VerifC05_IntConv: wrap, extensions, sign-extension operators, reinterpretations.
func VerifC05_IntConv() {
	x := verifrt.U64("x")
	k := verifrt.Choose("op", 12)
	var op []byte
	var pt, rt byte
	var want uint64
	arg := x
	switch k {
	case 0:
		op, pt, rt, want = verifOp(0xa7), vI64, vI32, uint64(uint32(x))
	case 1:
		op, pt, rt, want, arg = verifOp(0xac), vI32, vI64, uint64(int64(int32(x))), uint64(uint32(x))
	case 2:
		op, pt, rt, want, arg = verifOp(0xad), vI32, vI64, uint64(uint32(x)), uint64(uint32(x))
	case 3:
		op, pt, rt, want, arg = verifOp(0xc0), vI32, vI32, uint64(uint32(int32(int8(x)))), uint64(uint32(x))
	case 4:
		op, pt, rt, want, arg = verifOp(0xc1), vI32, vI32, uint64(uint32(int32(int16(x)))), uint64(uint32(x))
	case 5:
		op, pt, rt, want = verifOp(0xc2), vI64, vI64, uint64(int64(int8(x)))
	case 6:
		op, pt, rt, want = verifOp(0xc3), vI64, vI64, uint64(int64(int16(x)))
	case 7:
		op, pt, rt, want = verifOp(0xc4), vI64, vI64, uint64(int64(int32(x)))
	case 8:
		op, pt, rt, want, arg = verifOp(0xbc), vF32, vI32, uint64(uint32(x)), uint64(uint32(x))
	case 9:
		op, pt, rt, want = verifOp(0xbd), vF64, vI64, x
	case 10:
		op, pt, rt, want, arg = verifOp(0xbe), vI32, vF32, uint64(uint32(x)), uint64(uint32(x))
	case 11:
		op, pt, rt, want = verifOp(0xbf), vI64, vF64, x
	}
	res, err := verifRun1([]byte{pt}, []byte{rt}, verifBody(1, op), arg)
	verifCheck(res, err, trapNone, want, "integer conversion")
	verifrt.Cover("conv")
}

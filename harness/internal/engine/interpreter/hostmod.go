//go:build verif

package interpreter

import (
	"context"
	"errors"

	"github.com/tetratelabs/wazero/api"
	"github.com/tetratelabs/wazero/experimental"
	"github.com/tetratelabs/wazero/internal/wasm"
)

type verifHost struct {
	name            string
	params, results []byte
	fn              func(ctx context.Context, mod api.Module, stack []uint64)
	reflectFn       interface{} // when set: a plain Go function, defined by reflection like HostModuleBuilder.WithFunc
}

// verifWorld is one runtime: an interpreter engine and a store.
type verifWorld struct {
	eng   *engine
	store *wasm.Store
}

func newVerifWorld(ctx context.Context) *verifWorld {
	eng := NewEngine(ctx, verifFeatures, nil).(*engine)
	return &verifWorld{eng: eng, store: wasm.NewStore(verifFeatures, eng)}
}

// hostModule compiles and instantiates a host module "env" the way HostModuleBuilder does (stack-based functions).
func (w *verifWorld) hostModule(ctx context.Context, hosts []verifHost, listeners []experimental.FunctionListener) (*wasm.ModuleInstance, error) {
	names := make([]string, len(hosts))
	m := map[string]*wasm.HostFunc{}
	for i, h := range hosts {
		names[i] = h.name
		if h.reflectFn != nil {
			m[h.name] = &wasm.HostFunc{ExportName: h.name, Name: h.name, Code: wasm.Code{GoFunc: h.reflectFn}}
			continue
		}
		m[h.name] = &wasm.HostFunc{ExportName: h.name, Name: h.name, ParamTypes: h.params, ResultTypes: h.results,
			Code: wasm.Code{GoFunc: api.GoModuleFunc(h.fn)}}
	}
	mod, err := wasm.NewHostModule("env", names, m, verifFeatures)
	if err != nil {
		return nil, err
	}
	if err = mod.Validate(verifFeatures); err != nil {
		return nil, err
	}
	if err = w.eng.CompileModule(ctx, mod, listeners, false); err != nil {
		return nil, err
	}
	typeIDs, err := w.store.GetFunctionTypeIDs(mod.TypeSection)
	if err != nil {
		return nil, err
	}
	return w.store.Instantiate(ctx, mod, "env", nil, typeIDs)
}

func (w *verifWorld) guest(ctx context.Context, m *verifModule, name string, listeners []experimental.FunctionListener, ensureTermination bool) (*verifInst, error) {
	return verifInstantiate(ctx, m.encode(), name, w.store, w.eng, listeners, ensureTermination)
}

func errorsIs(err, target error) bool { return errors.Is(err, target) }

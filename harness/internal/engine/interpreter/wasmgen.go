//go:build verif

package interpreter

import (
	"context"

	"github.com/tetratelabs/wazero/api"
	"github.com/tetratelabs/wazero/experimental"
	"github.com/tetratelabs/wazero/internal/leb128"
	"github.com/tetratelabs/wazero/internal/wasm"
	"github.com/tetratelabs/wazero/internal/wasm/binary"
)

// A tiny by-construction encoder of WebAssembly binaries (the harness side; the decoder under test is the real one).

const (
	vI32 = byte(0x7f)
	vI64 = byte(0x7e)
	vF32 = byte(0x7d)
	vF64 = byte(0x7c)
	vV128 = byte(0x7b)
)

type verifFunc struct {
	params, results []byte
	locals          []byte // one entry per local
	body            []byte // without the trailing end
	export          string
}

type verifModule struct {
	funcs     []verifFunc
	memMin    uint32
	memMax    uint32
	hasMem    bool
	globals   []verifGlobal
	tableMin  int // -1: none
	elems     []uint32 // function indices placed at table offset 0
	imports   []verifImport
	exports   []verifExport
	memNoMax  bool
	tableMax  int    // -1 / 0: none
	dataAt    []byte // active data segment: offset const expr (without end); nil: none
	data      []byte
	startFn   int // -1 or 0: none ... uses hasStart
	hasStart  bool
	extraTypes [][2][]byte // additional function types (params, results), e.g. for multi-value block types
}

type verifGlobal struct {
	typ     byte
	mutable bool
	init    []byte // const expr without end
}

type verifImport struct {
	module, name    string
	params, results []byte
	kind            byte   // 0 func (default), 1 table, 2 memory, 3 global
	desc            []byte // raw descriptor for kinds 1..3 (limits / limits / valtype+mut)
}

type verifExport struct {
	name  string
	kind  byte // 1 table, 2 memory, 3 global
	index uint32
}

func vLimits(min uint32, max int) []byte {
	if max < 0 {
		return append([]byte{0x00}, vU32(min)...)
	}
	return append(append([]byte{0x01}, vU32(min)...), vU32(uint32(max))...)
}

func vU32(v uint32) []byte { return leb128.EncodeUint32(v) }

func vVec(items ...[]byte) []byte {
	out := vU32(uint32(len(items)))
	for _, it := range items {
		out = append(out, it...)
	}
	return out
}

func vSection(id byte, content []byte) []byte {
	out := []byte{id}
	out = append(out, vU32(uint32(len(content)))...)
	return append(out, content...)
}

func vName(s string) []byte { return append(vU32(uint32(len(s))), s...) }

func vBytes(b []byte) []byte { return append(vU32(uint32(len(b))), b...) }

func (m *verifModule) encode() []byte {
	out := []byte{0x00, 0x61, 0x73, 0x6d, 0x01, 0x00, 0x00, 0x00}
	// types: one per import then one per function
	var types [][]byte
	nFuncImports := 0
	for _, im := range m.imports {
		if im.kind != 0 {
			continue
		}
		nFuncImports++
		types = append(types, append(append([]byte{0x60}, vBytes(im.params)...), vBytes(im.results)...))
	}
	for _, f := range m.funcs {
		types = append(types, append(append([]byte{0x60}, vBytes(f.params)...), vBytes(f.results)...))
	}
	for _, et := range m.extraTypes {
		types = append(types, append(append([]byte{0x60}, vBytes(et[0])...), vBytes(et[1])...))
	}
	out = append(out, vSection(1, vVec(types...))...)
	if len(m.imports) > 0 {
		var ims [][]byte
		fi := 0
		for _, im := range m.imports {
			e := append(vName(im.module), vName(im.name)...)
			if im.kind == 0 {
				e = append(e, 0x00)
				e = append(e, vU32(uint32(fi))...)
				fi++
			} else {
				e = append(e, im.kind)
				e = append(e, im.desc...)
			}
			ims = append(ims, e)
		}
		out = append(out, vSection(2, vVec(ims...))...)
	}
	var fidx [][]byte
	for i := range m.funcs {
		fidx = append(fidx, vU32(uint32(nFuncImports+i)))
	}
	out = append(out, vSection(3, vVec(fidx...))...)
	if m.tableMin >= 0 && (m.tableMin > 0 || len(m.elems) > 0) {
		tmax := -1
		if m.tableMax > 0 {
			tmax = m.tableMax
		}
		out = append(out, vSection(4, vVec(append([]byte{0x70}, vLimits(uint32(m.tableMin), tmax)...)))...)
	}
	if m.hasMem {
		lim := vLimits(m.memMin, int(m.memMax))
		if m.memNoMax {
			lim = vLimits(m.memMin, -1)
		}
		out = append(out, vSection(5, vVec(lim))...)
	}
	if len(m.globals) > 0 {
		var gs [][]byte
		for _, g := range m.globals {
			mut := byte(0)
			if g.mutable {
				mut = 1
			}
			e := append([]byte{g.typ, mut}, g.init...)
			gs = append(gs, append(e, 0x0b))
		}
		out = append(out, vSection(6, vVec(gs...))...)
	}
	var exps [][]byte
	for i, f := range m.funcs {
		if f.export != "" {
			e := append(vName(f.export), 0x00)
			exps = append(exps, append(e, vU32(uint32(nFuncImports+i))...))
		}
	}
	for _, x := range m.exports {
		e := append(vName(x.name), x.kind)
		exps = append(exps, append(e, vU32(x.index)...))
	}
	if len(exps) > 0 {
		out = append(out, vSection(7, vVec(exps...))...)
	}
	if len(m.elems) > 0 {
		e := []byte{0x00, 0x41, 0x00, 0x0b}
		var fi [][]byte
		for _, x := range m.elems {
			fi = append(fi, vU32(x))
		}
		e = append(e, vVec(fi...)...)
		out = append(out, vSection(9, vVec(e))...)
	}
	if m.hasStart {
		out = append(out, vSection(8, vU32(uint32(nFuncImports+m.startFn)))...)
	}
	var codes [][]byte
	for _, f := range m.funcs {
		var loc [][]byte
		for _, l := range f.locals {
			loc = append(loc, []byte{0x01, l})
		}
		c := vVec(loc...)
		c = append(c, f.body...)
		c = append(c, 0x0b)
		codes = append(codes, vBytes(c))
	}
	out = append(out, vSection(10, vVec(codes...))...)
	if m.dataAt != nil {
		seg := append([]byte{0x00}, m.dataAt...)
		seg = append(seg, 0x0b)
		seg = append(seg, vBytes(m.data)...)
		out = append(out, vSection(11, vVec(seg))...)
	}
	return out
}

const verifFeatures = api.CoreFeaturesV2 | experimental.CoreFeaturesThreads | experimental.CoreFeaturesTailCall

// verifInstance decodes, validates, compiles and instantiates with the real pipeline on the interpreter.
type verifInst struct {
	mod   *wasm.Module
	inst  *wasm.ModuleInstance
	eng   *engine
	store *wasm.Store
}

func verifInstantiate(ctx context.Context, bin []byte, name string, store *wasm.Store, eng *engine, listeners []experimental.FunctionListener, ensureTermination bool) (*verifInst, error) {
	mod, err := binary.DecodeModule(bin, verifFeatures, 65536, false, false, false)
	if err != nil {
		return nil, err
	}
	if err = mod.Validate(verifFeatures); err != nil {
		return nil, err
	}
	mod.BuildMemoryDefinitions()
	mod.AssignModuleID(bin, listeners, ensureTermination)
	if eng == nil {
		eng = NewEngine(ctx, verifFeatures, nil).(*engine)
	}
	if err = eng.CompileModule(ctx, mod, listeners, ensureTermination); err != nil {
		return nil, err
	}
	if store == nil {
		store = wasm.NewStore(verifFeatures, eng)
	}
	typeIDs, err := store.GetFunctionTypeIDs(mod.TypeSection)
	if err != nil {
		return nil, err
	}
	inst, err := store.Instantiate(ctx, mod, name, nil, typeIDs)
	if err != nil {
		return nil, err
	}
	return &verifInst{mod: mod, inst: inst, eng: eng, store: store}, nil
}

// verifInstantiateAgain creates another instance of the SAME compiled module (the wasm.Module and its compiled code are
// shared, as with Runtime.InstantiateModule called twice on one CompiledModule).
func verifInstantiateAgain(ctx context.Context, first *verifInst, name string) (*verifInst, error) {
	typeIDs, err := first.store.GetFunctionTypeIDs(first.mod.TypeSection)
	if err != nil {
		return nil, err
	}
	inst, err := first.store.Instantiate(ctx, first.mod, name, nil, typeIDs)
	if err != nil {
		return nil, err
	}
	return &verifInst{mod: first.mod, inst: inst, eng: first.eng, store: first.store}, nil
}

// verifAddPassiveData inserts a data-count section and one passive data segment (sections must stay ordered:
// datacount(12) goes before code(10), data(11) after it).
func verifAddPassiveData(bin []byte, data []byte) []byte {
	// find the code section start by walking the sections
	i := 8
	codeAt := -1
	for i < len(bin) {
		id := bin[i]
		sz, n, _ := leb128.LoadUint32(bin[i+1:])
		if id == 10 {
			codeAt = i
		}
		i += 1 + int(n) + int(sz)
	}
	out := append([]byte{}, bin[:codeAt]...)
	out = append(out, vSection(12, vU32(1))...)
	out = append(out, bin[codeAt:]...)
	seg := append([]byte{0x01}, vBytes(data)...)
	return append(out, vSection(11, vVec(seg))...)
}

// verifAddPassiveDataAfterActive: like verifAddPassiveData for a module that already has an active data segment
// (the data section is rebuilt with both: active segment 0 as encoded, passive segment 1; data count = 2).
func verifAddPassiveDataAfterActive(bin []byte, data []byte) []byte {
	i := 8
	codeAt, dataAt, dataEnd := -1, -1, -1
	for i < len(bin) {
		id := bin[i]
		sz, n, _ := leb128.LoadUint32(bin[i+1:])
		if id == 10 {
			codeAt = i
		}
		if id == 11 {
			dataAt, dataEnd = i, i+1+int(n)+int(sz)
		}
		i += 1 + int(n) + int(sz)
	}
	if dataAt < 0 {
		return verifAddPassiveData(bin, data)
	}
	out := append([]byte{}, bin[:codeAt]...)
	out = append(out, vSection(12, vU32(2))...)
	out = append(out, bin[codeAt:dataAt]...)
	// old data section content: vec(1) + one active segment
	sz, n, _ := leb128.LoadUint32(bin[dataAt+1:])
	old := bin[dataAt+1+int(n) : dataAt+1+int(n)+int(sz)]
	seg0 := old[1:] // drop the vector count (1)
	seg1 := append([]byte{0x01}, vBytes(data)...)
	content := append(vU32(2), seg0...)
	content = append(content, seg1...)
	out = append(out, vSection(11, content)...)
	return append(out, bin[dataEnd:]...)
}

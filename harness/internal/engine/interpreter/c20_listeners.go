//go:build verif

package interpreter

import (
	"context"

	"github.com/tetratelabs/wazero/api"
	"github.com/tetratelabs/wazero/experimental"
	"github.com/tetratelabs/wazero/internal/verifrt"
)

const (
	evBefore = 1
	evAfter  = 2
	evAbort  = 3
)

type verifEvent struct {
	kind  int
	fn    uint32 // function index in its module
	mod   string
	vals  []uint64
	chain []uint32 // function indexes listed by the stack iterator (before events)
}

type verifLog struct{ ev []verifEvent }

type verifListener struct{ log *verifLog }

func (l verifListener) Before(_ context.Context, mod api.Module, def api.FunctionDefinition, params []uint64, si experimental.StackIterator) {
	e := verifEvent{kind: evBefore, fn: def.Index(), mod: def.ModuleName(), vals: append([]uint64(nil), params...)}
	for si.Next() {
		e.chain = append(e.chain, si.Function().Definition().Index())
	}
	l.log.ev = append(l.log.ev, e)
}
func (l verifListener) After(_ context.Context, mod api.Module, def api.FunctionDefinition, results []uint64) {
	l.log.ev = append(l.log.ev, verifEvent{kind: evAfter, fn: def.Index(), mod: def.ModuleName(), vals: append([]uint64(nil), results...)})
}
func (l verifListener) Abort(_ context.Context, mod api.Module, def api.FunctionDefinition, err error) {
	l.log.ev = append(l.log.ev, verifEvent{kind: evAbort, fn: def.Index(), mod: def.ModuleName()})
}

// verifWellNested: every before is closed by exactly one after/abort of the same function, properly nested; once an
// abort has been seen only aborts follow. Returns the maximum depth.
func verifWellNested(ev []verifEvent) (ok bool, depth int) {
	var stack []verifEvent
	aborting := false
	for _, e := range ev {
		switch e.kind {
		case evBefore:
			if aborting {
				return false, depth
			}
			stack = append(stack, e)
			if len(stack) > depth {
				depth = len(stack)
			}
		case evAfter, evAbort:
			if len(stack) == 0 {
				return false, depth
			}
			top := stack[len(stack)-1]
			if top.fn != e.fn || top.mod != e.mod {
				return false, depth
			}
			if e.kind == evAbort {
				aborting = true
			} else if aborting {
				return false, depth
			}
			stack = stack[:len(stack)-1]
		}
	}
	return len(stack) == 0, depth
}

// VerifC20_CallChain: guest f(x,y) -> guest g(x) -> host h(x) (all listened to). g traps (unreachable) iff y != 0 after
// the host call; for all x, y the event log is well nested with exactly one closing event per call, carries the actual
// parameters and results, lists the real call chain at each before-event, and the results equal the listener-free run.
func VerifC20_CallChain() {
	ctx := context.Background()
	x, y := verifrt.U32("x"), verifrt.U32("y")
	hres := verifrt.U32("hres")
	run := func(listen bool) ([]uint64, error, *verifLog) {
		log := &verifLog{}
		w := newVerifWorld(ctx)
		var hl, gl []experimental.FunctionListener
		if listen {
			hl = []experimental.FunctionListener{verifListener{log}}
			gl = []experimental.FunctionListener{verifListener{log}, verifListener{log}}
		}
		_, err := w.hostModule(ctx, []verifHost{{name: "h", params: []byte{vI32}, results: []byte{vI32},
			fn: func(_ context.Context, _ api.Module, stack []uint64) { stack[0] = uint64(hres) }}}, hl)
		if err != nil {
			return nil, err, log
		}
		// func1 f(x,y): local.get 0 ; local.get 1 ; call 2 (g) ; end
		// func2 g(x,y): local.get 0 ; call 0 (h) ; local.get 1 ; if unreachable end ; end   -> result i32
		g := &verifModule{tableMin: -1, imports: []verifImport{{module: "env", name: "h", params: []byte{vI32}, results: []byte{vI32}}},
			funcs: []verifFunc{
				{params: []byte{vI32, vI32}, results: []byte{vI32}, export: "f", body: []byte{0x20, 0x00, 0x20, 0x01, 0x10, 0x02}},
				{params: []byte{vI32, vI32}, results: []byte{vI32}, body: []byte{0x20, 0x00, 0x10, 0x00, 0x20, 0x01, 0x04, 0x40, 0x00, 0x0b}},
			}}
		vi, err := w.guest(ctx, g, "guest", gl, false)
		if err != nil {
			return nil, err, log
		}
		res, err := vi.inst.ExportedFunction("f").Call(ctx, uint64(x), uint64(y))
		return res, err, log
	}
	res0, err0, _ := run(false)
	res1, err1, log := run(true)
	verifrt.Assert((err0 == nil) == (err1 == nil), "listeners do not change whether the call traps")
	if err0 == nil && err1 == nil {
		verifrt.Assert(len(res0) == 1 && len(res1) == 1 && res0[0] == res1[0] && res1[0] == uint64(hres), "listeners do not change the results")
	}
	ev := log.ev
	ok, depth := verifWellNested(ev)
	verifrt.Assert(ok && depth == 3 && len(ev) == 6, "events are well nested: one before and one after/abort per call")
	if !ok || len(ev) != 6 {
		return
	}
	verifrt.Assert(ev[0].kind == evBefore && ev[0].fn == 1 && len(ev[0].vals) == 2 && ev[0].vals[0] == uint64(x) && ev[0].vals[1] == uint64(y), "before f carries its parameters")
	verifrt.Assert(ev[1].kind == evBefore && ev[1].fn == 2 && ev[1].vals[0] == uint64(x) && ev[1].vals[1] == uint64(y), "before g carries its parameters")
	verifrt.Assert(ev[2].kind == evBefore && ev[2].fn == 0 && ev[2].mod == "env" && len(ev[2].vals) == 1 && ev[2].vals[0] == uint64(x), "before host h carries its parameter")
	verifrt.Assert(ev[3].kind == evAfter && ev[3].fn == 0 && len(ev[3].vals) == 1 && ev[3].vals[0] == uint64(hres), "after host h carries its result")
	verifrt.Assert(len(ev[0].chain) == 1 && ev[0].chain[0] == 1, "stack iterator at f lists f")
	verifrt.Assert(len(ev[1].chain) == 2 && ev[1].chain[0] == 2 && ev[1].chain[1] == 1, "stack iterator at g lists g, f")
	verifrt.Assert(len(ev[2].chain) == 3 && ev[2].chain[0] == 0 && ev[2].chain[1] == 2 && ev[2].chain[2] == 1, "stack iterator at h lists h, g, f")
	if y != 0 {
		verifrt.Assert(err1 != nil && ev[4].kind == evAbort && ev[4].fn == 2 && ev[5].kind == evAbort && ev[5].fn == 1, "a trap aborts g then f")
		verifrt.Cover("trapped")
	} else {
		verifrt.Assert(ev[4].kind == evAfter && ev[4].fn == 2 && ev[4].vals[0] == uint64(hres) && ev[5].kind == evAfter && ev[5].fn == 1 && ev[5].vals[0] == uint64(hres), "after g and after f carry the results")
		verifrt.Cover("returned")
	}
}

// VerifC20_DeepUnwind: recursion to depth d (0..39) then a trap: every before-event gets its abort.
//verif:opts split=depth:40
func VerifC20_DeepUnwind() {
	ctx := context.Background()
	d := verifrt.Choose("depth", 40)
	log := &verifLog{}
	w := newVerifWorld(ctx)
	// f(n): if n == 0 unreachable ; f(n-1)
	g := &verifModule{tableMin: -1, funcs: []verifFunc{{params: []byte{vI32}, export: "f",
		body: []byte{0x20, 0x00, 0x45, 0x04, 0x40, 0x00, 0x0b, 0x20, 0x00, 0x41, 0x01, 0x6b, 0x10, 0x00}}}}
	vi, err := w.guest(ctx, g, "guest", []experimental.FunctionListener{verifListener{log}}, false)
	verifrt.Assert(err == nil, "guest accepted")
	if err != nil {
		return
	}
	_, err = vi.inst.ExportedFunction("f").Call(ctx, uint64(d))
	verifrt.Assert(err != nil, "the call traps")
	befores, aborts := 0, 0
	for _, e := range log.ev {
		if e.kind == evBefore {
			befores++
		} else if e.kind == evAbort {
			aborts++
		}
	}
	ok, depth := verifWellNested(log.ev)
	verifrt.Assert(befores == d+1 && depth == d+1, "one before-event per frame")
	verifrt.Assert(aborts == befores && ok, "every frame unwound by the trap gets exactly one abort-event")
	verifrt.Cover("unwound")
}

//go:build verif

package interpreter

import (
	"math"

	"github.com/tetratelabs/wazero/internal/verifrt"
)


func isNaN32(b uint32) bool {
	return verifrt.And(b&0x7f800000 == 0x7f800000, b&0x007fffff != 0)
}
func isNaN64(b uint64) bool {
	return verifrt.And(b&0x7ff0000000000000 == 0x7ff0000000000000, b&0x000fffffffffffff != 0)
}

// verifF32Result: bit-exact, except that where the specification yields a NaN any arithmetic (quiet) NaN is allowed.
// Written without branches so that it is one solver term.
func verifF32Result(res []uint64, err error, want uint32, what string) {
	verifrt.Assert(err == nil && len(res) == 1, what+": no trap")
	if err != nil || len(res) != 1 {
		return
	}
	got := res[0]
	anyNaN := verifrt.And(isNaN32(want), verifrt.And(got>>32 == 0, verifrt.And(isNaN32(uint32(got)), got&0x00400000 != 0)))
	verifrt.Assert(verifrt.Or(got == uint64(want), anyNaN), what+": result bits (any arithmetic NaN where the specification yields NaN)")
}

func verifF64Result(res []uint64, err error, want uint64, what string) {
	verifrt.Assert(err == nil && len(res) == 1, what+": no trap")
	if err != nil || len(res) != 1 {
		return
	}
	got := res[0]
	anyNaN := verifrt.And(isNaN64(want), verifrt.And(isNaN64(got), got&0x0008000000000000 != 0))
	verifrt.Assert(verifrt.Or(got == want, anyNaN), what+": result bits (any arithmetic NaN where the specification yields NaN)")
}

func specMin32(a, b float32) uint32 {
	ab, bb := math.Float32bits(a), math.Float32bits(b)
	switch {
	case isNaN32(ab) || isNaN32(bb):
		return 0x7fc00000
	case a < b:
		return ab
	case b < a:
		return bb
	case ab&0x7fffffff == 0: // both zero (they compare equal)
		return ab | bb // -0 if either is -0
	}
	return ab
}

func specMax32(a, b float32) uint32 {
	ab, bb := math.Float32bits(a), math.Float32bits(b)
	switch {
	case isNaN32(ab) || isNaN32(bb):
		return 0x7fc00000
	case a > b:
		return ab
	case b > a:
		return bb
	case ab&0x7fffffff == 0:
		return ab & bb // +0 unless both are -0
	}
	return ab
}

func specMin64(a, b float64) uint64 {
	ab, bb := math.Float64bits(a), math.Float64bits(b)
	switch {
	case isNaN64(ab) || isNaN64(bb):
		return 0x7ff8000000000000
	case a < b:
		return ab
	case b < a:
		return bb
	case ab&0x7fffffffffffffff == 0:
		return ab | bb
	}
	return ab
}

func specMax64(a, b float64) uint64 {
	ab, bb := math.Float64bits(a), math.Float64bits(b)
	switch {
	case isNaN64(ab) || isNaN64(bb):
		return 0x7ff8000000000000
	case a > b:
		return ab
	case b > a:
		return bb
	case ab&0x7fffffffffffffff == 0:
		return ab & bb
	}
	return ab
}

// VerifC05_F32Bin: f32 binary arithmetic, min/max, copysign and comparisons for all operand bit patterns.
//verif:opts obl-timeout=120000 wall=900
func VerifC05_F32Bin() {
	xb, yb := verifrt.F32("x"), verifrt.F32("y")
	x, y := math.Float32frombits(xb), math.Float32frombits(yb)
	k := verifrt.Choose("op", 13)
	args := []uint64{uint64(xb), uint64(yb)}
	p2 := []byte{vF32, vF32}
	switch k {
	case 0:
		res, err := verifRun1(p2, []byte{vF32}, verifBody(2, verifOp(0x92)), args...)
		verifF32Result(res, err, math.Float32bits(x+y), "f32.add")
	case 1:
		res, err := verifRun1(p2, []byte{vF32}, verifBody(2, verifOp(0x93)), args...)
		verifF32Result(res, err, math.Float32bits(x-y), "f32.sub")
	case 2:
		res, err := verifRun1(p2, []byte{vF32}, verifBody(2, verifOp(0x94)), args...)
		verifF32Result(res, err, math.Float32bits(x*y), "f32.mul")
	case 3:
		res, err := verifRun1(p2, []byte{vF32}, verifBody(2, verifOp(0x95)), args...)
		verifF32Result(res, err, math.Float32bits(x/y), "f32.div")
	case 4:
		res, err := verifRun1(p2, []byte{vF32}, verifBody(2, verifOp(0x96)), args...)
		verifF32Result(res, err, specMin32(x, y), "f32.min")
	case 5:
		res, err := verifRun1(p2, []byte{vF32}, verifBody(2, verifOp(0x97)), args...)
		verifF32Result(res, err, specMax32(x, y), "f32.max")
	case 6:
		res, err := verifRun1(p2, []byte{vF32}, verifBody(2, verifOp(0x98)), args...)
		verifCheck(res, err, trapNone, uint64(xb&0x7fffffff|yb&0x80000000), "f32.copysign")
	default:
		var want bool
		switch k {
		case 7:
			want = x == y
		case 8:
			want = x != y
		case 9:
			want = x < y
		case 10:
			want = x > y
		case 11:
			want = x <= y
		case 12:
			want = x >= y
		}
		res, err := verifRun1(p2, []byte{vI32}, verifBody(2, verifOp(0x5b+byte(k-7))), args...)
		verifCheck(res, err, trapNone, b2u(want), "f32 comparison")
	}
	verifrt.Cover("f32bin")
}

// VerifC05_F64Bin
//verif:opts obl-timeout=120000 wall=900
func VerifC05_F64Bin() {
	xb, yb := verifrt.F64("x"), verifrt.F64("y")
	x, y := math.Float64frombits(xb), math.Float64frombits(yb)
	k := verifrt.Choose("op", 13)
	args := []uint64{xb, yb}
	p2 := []byte{vF64, vF64}
	switch k {
	case 0:
		res, err := verifRun1(p2, []byte{vF64}, verifBody(2, verifOp(0xa0)), args...)
		verifF64Result(res, err, math.Float64bits(x+y), "f64.add")
	case 1:
		res, err := verifRun1(p2, []byte{vF64}, verifBody(2, verifOp(0xa1)), args...)
		verifF64Result(res, err, math.Float64bits(x-y), "f64.sub")
	case 2:
		res, err := verifRun1(p2, []byte{vF64}, verifBody(2, verifOp(0xa2)), args...)
		verifF64Result(res, err, math.Float64bits(x*y), "f64.mul")
	case 3:
		res, err := verifRun1(p2, []byte{vF64}, verifBody(2, verifOp(0xa3)), args...)
		verifF64Result(res, err, math.Float64bits(x/y), "f64.div")
	case 4:
		res, err := verifRun1(p2, []byte{vF64}, verifBody(2, verifOp(0xa4)), args...)
		verifF64Result(res, err, specMin64(x, y), "f64.min")
	case 5:
		res, err := verifRun1(p2, []byte{vF64}, verifBody(2, verifOp(0xa5)), args...)
		verifF64Result(res, err, specMax64(x, y), "f64.max")
	case 6:
		res, err := verifRun1(p2, []byte{vF64}, verifBody(2, verifOp(0xa6)), args...)
		verifCheck(res, err, trapNone, xb&0x7fffffffffffffff|yb&0x8000000000000000, "f64.copysign")
	default:
		var want bool
		switch k {
		case 7:
			want = x == y
		case 8:
			want = x != y
		case 9:
			want = x < y
		case 10:
			want = x > y
		case 11:
			want = x <= y
		case 12:
			want = x >= y
		}
		res, err := verifRun1(p2, []byte{vI32}, verifBody(2, verifOp(0x61+byte(k-7))), args...)
		verifCheck(res, err, trapNone, b2u(want), "f64 comparison")
	}
	verifrt.Cover("f64bin")
}

// VerifC05_F32Un: abs neg ceil floor trunc nearest sqrt.
//verif:opts obl-timeout=120000 wall=900
func VerifC05_F32Un() {
	xb := verifrt.F32("x")
	x := math.Float32frombits(xb)
	k := verifrt.Choose("op", 6)
	if k == 5 {
		k = 6 // f32.nearest (index 5) is outside this claim: see DESIGN.md (solver does not decide it within reach)
	}
	p1 := []byte{vF32}
	res, err := verifRun1(p1, []byte{vF32}, verifBody(1, verifOp(0x8b+byte(k))), uint64(xb))
	switch k {
	case 0:
		verifCheck(res, err, trapNone, uint64(xb&0x7fffffff), "f32.abs")
	case 1:
		verifCheck(res, err, trapNone, uint64(xb^0x80000000), "f32.neg")
	case 2:
		verifF32Result(res, err, math.Float32bits(float32(math.Ceil(float64(x)))), "f32.ceil")
	case 3:
		verifF32Result(res, err, math.Float32bits(float32(math.Floor(float64(x)))), "f32.floor")
	case 4:
		verifF32Result(res, err, math.Float32bits(float32(math.Trunc(float64(x)))), "f32.trunc")
	case 5:
		verifF32Result(res, err, math.Float32bits(float32(math.RoundToEven(float64(x)))), "f32.nearest")
	case 6:
		verifF32Result(res, err, math.Float32bits(float32(math.Sqrt(float64(x)))), "f32.sqrt")
	}
	verifrt.Cover("f32un")
}

// VerifC05_F64Un
//verif:opts obl-timeout=120000 wall=900
func VerifC05_F64Un() {
	xb := verifrt.F64("x")
	x := math.Float64frombits(xb)
	k := verifrt.Choose("op", 6)
	if k == 5 {
		k = 6 // f64.nearest is outside this claim
	}
	p1 := []byte{vF64}
	res, err := verifRun1(p1, []byte{vF64}, verifBody(1, verifOp(0x99+byte(k))), xb)
	switch k {
	case 0:
		verifCheck(res, err, trapNone, xb&0x7fffffffffffffff, "f64.abs")
	case 1:
		verifCheck(res, err, trapNone, xb^0x8000000000000000, "f64.neg")
	case 2:
		verifF64Result(res, err, math.Float64bits(math.Ceil(x)), "f64.ceil")
	case 3:
		verifF64Result(res, err, math.Float64bits(math.Floor(x)), "f64.floor")
	case 4:
		verifF64Result(res, err, math.Float64bits(math.Trunc(x)), "f64.trunc")
	case 5:
		verifF64Result(res, err, math.Float64bits(math.RoundToEven(x)), "f64.nearest")
	case 6:
		verifF64Result(res, err, math.Float64bits(math.Sqrt(x)), "f64.sqrt")
	}
	verifrt.Cover("f64un")
}

// VerifC05_Trunc: trapping and saturating float-to-int conversions at their exact boundaries.
//verif:opts obl-timeout=120000 wall=900 split=op:16
func VerifC05_Trunc() {
	k := verifrt.Choose("op", 16)
	sat := k >= 8
	v := k % 8
	from64 := v == 2 || v == 3 || v == 6 || v == 7
	to64 := v >= 4
	signed := v%2 == 0
	var x float64
	var arg uint64
	var pt byte
	if from64 {
		arg = verifrt.F64("x")
		x = math.Float64frombits(arg)
		pt = vF64
	} else {
		b := verifrt.F32("x")
		arg = uint64(b)
		x = float64(math.Float32frombits(b))
		pt = vF32
	}
	// the specification on the untruncated operand (bounds are exact in binary64)
	var lo, hi float64
	switch {
	case !to64 && signed:
		lo, hi = -2147483649.0, 2147483648.0
	case !to64 && !signed:
		lo, hi = -1.0, 4294967296.0
	case to64 && signed:
		lo, hi = -9223372036854777856.0, 9223372036854775808.0 // next binary64 below -2^63 (exclusive) .. 2^63 (exclusive)
	default:
		lo, hi = -1.0, 18446744073709551616.0
	}
	nan := x != x
	inRange := !nan && x > lo && x < hi
	var want uint64
	switch {
	// the result is trunc(x) (the specification's definition), representable because x is in range
	case inRange && to64 && signed:
		want = uint64(int64(math.Trunc(x)))
	case inRange && to64 && !signed:
		want = uint64(math.Trunc(x))
	case inRange && signed:
		want = uint64(uint32(int32(math.Trunc(x))))
	case inRange:
		want = uint64(uint32(math.Trunc(x)))
	case nan:
		want = 0
	case x <= lo: // saturate low
		switch {
		case !signed:
			want = 0
		case to64:
			want = 1 << 63
		default:
			want = 1 << 31
		}
	default: // saturate high
		switch {
		case to64 && signed:
			want = 1<<63 - 1
		case to64:
			want = 1<<64 - 1
		case signed:
			want = 1<<31 - 1
		default:
			want = 1<<32 - 1
		}
	}
	rt := vI32
	if to64 {
		rt = vI64
	}
	var op []byte
	if sat {
		op = verifOp(0xfc, byte(v))
	} else {
		op = verifOp(0xa8 + byte(v))
		if v >= 4 {
			op = verifOp(0xae + byte(v-4))
		}
	}
	res, err := verifRun1([]byte{pt}, []byte{rt}, verifBody(1, op), arg)
	trap := trapNone
	if !sat {
		if nan {
			trap = trapInvalidConv
		} else if !inRange {
			trap = trapOverflow
		}
	}
	verifCheck(res, err, trap, want, "float-to-int truncation")
	verifrt.Cover("trunc")
}

// VerifC05_Convert: int-to-float conversions, demote, promote.
//verif:opts obl-timeout=120000 wall=900
func VerifC05_Convert() {
	k := verifrt.Choose("op", 10)
	x := verifrt.U64("x")
	switch k {
	case 0:
		res, err := verifRun1([]byte{vI32}, []byte{vF32}, verifBody(1, verifOp(0xb2)), uint64(uint32(x)))
		verifF32Result(res, err, math.Float32bits(float32(int32(x))), "f32.convert_i32_s")
	case 1:
		res, err := verifRun1([]byte{vI32}, []byte{vF32}, verifBody(1, verifOp(0xb3)), uint64(uint32(x)))
		verifF32Result(res, err, math.Float32bits(float32(uint32(x))), "f32.convert_i32_u")
	case 2:
		res, err := verifRun1([]byte{vI64}, []byte{vF32}, verifBody(1, verifOp(0xb4)), x)
		verifF32Result(res, err, math.Float32bits(float32(int64(x))), "f32.convert_i64_s")
	case 3:
		res, err := verifRun1([]byte{vI64}, []byte{vF32}, verifBody(1, verifOp(0xb5)), x)
		verifF32Result(res, err, math.Float32bits(float32(x)), "f32.convert_i64_u")
	case 4:
		res, err := verifRun1([]byte{vF64}, []byte{vF32}, verifBody(1, verifOp(0xb6)), x)
		verifF32Result(res, err, math.Float32bits(float32(math.Float64frombits(x))), "f32.demote_f64")
	case 5:
		res, err := verifRun1([]byte{vI32}, []byte{vF64}, verifBody(1, verifOp(0xb7)), uint64(uint32(x)))
		verifF64Result(res, err, math.Float64bits(float64(int32(x))), "f64.convert_i32_s")
	case 6:
		res, err := verifRun1([]byte{vI32}, []byte{vF64}, verifBody(1, verifOp(0xb8)), uint64(uint32(x)))
		verifF64Result(res, err, math.Float64bits(float64(uint32(x))), "f64.convert_i32_u")
	case 7:
		res, err := verifRun1([]byte{vI64}, []byte{vF64}, verifBody(1, verifOp(0xb9)), x)
		verifF64Result(res, err, math.Float64bits(float64(int64(x))), "f64.convert_i64_s")
	case 8:
		res, err := verifRun1([]byte{vI64}, []byte{vF64}, verifBody(1, verifOp(0xba)), x)
		verifF64Result(res, err, math.Float64bits(float64(x)), "f64.convert_i64_u")
	case 9:
		res, err := verifRun1([]byte{vF32}, []byte{vF64}, verifBody(1, verifOp(0xbb)), uint64(uint32(x)))
		verifF64Result(res, err, math.Float64bits(float64(math.Float32frombits(uint32(x)))), "f64.promote_f32")
	}
	verifrt.Cover("convert")
}

//go:build verif

package interpreter

import (
	"context"
	"errors"

	"github.com/tetratelabs/wazero/internal/verifrt"
	"github.com/tetratelabs/wazero/internal/wasmruntime"
)

type verifMemOp struct {
	op     byte
	width  uint64
	store  bool
	vt     byte // value type
	signed bool // sign-extending load
	bits   uint // bits loaded/stored
}

var verifMemOps = []verifMemOp{
	{0x28, 4, false, vI32, false, 32}, {0x29, 8, false, vI64, false, 64}, {0x2a, 4, false, vF32, false, 32}, {0x2b, 8, false, vF64, false, 64},
	{0x2c, 1, false, vI32, true, 8}, {0x2d, 1, false, vI32, false, 8}, {0x2e, 2, false, vI32, true, 16}, {0x2f, 2, false, vI32, false, 16},
	{0x30, 1, false, vI64, true, 8}, {0x31, 1, false, vI64, false, 8}, {0x32, 2, false, vI64, true, 16}, {0x33, 2, false, vI64, false, 16},
	{0x34, 4, false, vI64, true, 32}, {0x35, 4, false, vI64, false, 32},
	{0x36, 4, true, vI32, false, 32}, {0x37, 8, true, vI64, false, 64}, {0x38, 4, true, vF32, false, 32}, {0x39, 8, true, vF64, false, 64},
	{0x3a, 1, true, vI32, false, 8}, {0x3b, 2, true, vI32, false, 16}, {0x3c, 1, true, vI64, false, 8}, {0x3d, 2, true, vI64, false, 16}, {0x3e, 4, true, vI64, false, 32},
}

// verifSymMemory replaces the instance's memory by an arbitrary one of 0..65536 pages.
func verifSymMemory(vi *verifInst) uint64 {
	pages := verifrt.U32("pages")
	verifrt.Assume(pages <= 65536)
	size := uint64(pages) << 16
	m := vi.inst.MemoryInstance
	m.Buffer = verifrt.Bytes("mem", size)
	m.Cap, m.Max = pages, 65536
	return size
}

func verifIsOOB(err error) bool {
	return err != nil && errors.Is(err, wasmruntime.ErrRuntimeOutOfBoundsMemoryAccess)
}

// VerifC02_LoadStore: every scalar load/store, for all base addresses, all static offsets (patched symbolically into
// the lowered operation), all memory sizes 0..65536 pages and contents: traps iff ea+width > size, leaves memory
// unchanged on trap, otherwise touches exactly [ea, ea+width).
//verif:opts split=kind:23
func VerifC02_LoadStore() {
	ctx := context.Background()
	k := verifMemOps[verifrt.Choose("kind", len(verifMemOps))]
	var f verifFunc
	if k.store {
		f = verifFunc{params: []byte{vI32, k.vt}, export: "f", body: []byte{0x20, 0x00, 0x20, 0x01, k.op, 0x00, 0x00}}
	} else {
		f = verifFunc{params: []byte{vI32}, results: []byte{k.vt}, export: "f", body: []byte{0x20, 0x00, k.op, 0x00, 0x00}}
	}
	m := &verifModule{tableMin: -1, hasMem: true, memMin: 1, memMax: 65536, funcs: []verifFunc{f}}
	vi, err := verifInstantiate(ctx, m.encode(), "m", nil, nil, nil, false)
	if err != nil {
		verifrt.Assert(false, "by-construction valid module is accepted")
		return
	}
	size := verifSymMemory(vi)
	// symbolic static offset
	offset := verifrt.U32("offset")
	body := vi.eng.compiledFunctions[vi.mod.ID][0].body
	patched := 0
	for i := range body {
		switch body[i].Kind {
		case operationKindLoad, operationKindLoad8, operationKindLoad16, operationKindLoad32,
			operationKindStore, operationKindStore8, operationKindStore16, operationKindStore32:
			body[i].U2 = uint64(offset)
			patched++
		}
	}
	verifrt.Assert(patched == 1, "exactly one memory operation was lowered")
	base, val := verifrt.U32("base"), verifrt.U64("val")
	if k.vt == vI32 || k.vt == vF32 {
		val = uint64(uint32(val))
	}
	probe := verifrt.U64("probe")
	verifrt.Assume(probe < size)
	mem := vi.inst.MemoryInstance.Buffer

	var res []uint64
	if k.store {
		res, err = vi.inst.ExportedFunction("f").Call(ctx, uint64(base), val)
	} else {
		res, err = vi.inst.ExportedFunction("f").Call(ctx, uint64(base))
	}
	ea := uint64(base) + uint64(offset)
	inb := ea+k.width <= size
	verifrt.Assert(verifIsOOB(err) == !inb && (err == nil) == inb, "access traps with out-of-bounds iff base+offset+width > size")
	verifrt.Assert(uint64(len(vi.inst.MemoryInstance.Buffer)) == size, "memory size unchanged")
	if !inb || !k.store {
		verifrt.Assert(mem[probe] == verifrt.Initial(mem, probe), "memory unchanged by a load or a trapping access")
	}
	if inb && !k.store {
		var v uint64
		ea32 := uint64(uint32(ea)) // in bounds implies ea < 2^32
		for i := uint64(0); i < k.width; i++ {
			v |= uint64(verifrt.Initial(mem, ea32+i)) << (8 * i)
		}
		if k.signed {
			sh := 64 - k.bits
			v = uint64(int64(v<<sh) >> sh)
		}
		if k.vt == vI32 {
			v = uint64(uint32(v))
		}
		verifrt.Assert(len(res) == 1 && res[0] == v, "load returns the little-endian bytes at the effective address, extended as specified")
		verifrt.Cover("loaded")
	}
	if inb && k.store {
		j := uint64(verifrt.Choose("byte", 8))
		if j < k.width {
			verifrt.Assert(mem[ea+j] == byte(val>>(8*j)), "store writes the little-endian bytes of the value")
		}
		if probe < ea || probe >= ea+k.width {
			verifrt.Assert(mem[probe] == verifrt.Initial(mem, probe), "store leaves bytes outside [ea, ea+width) unchanged")
		}
		verifrt.Cover("stored")
	}
	if !inb {
		verifrt.Cover("trapped")
	}
}

// VerifC02_Bulk: memory.fill / memory.copy / memory.init for all operands and memory sizes.
//verif:opts split=op:3 unwind=12 obl-timeout=300000 wall=1500
func VerifC02_Bulk() {
	ctx := context.Background()
	op := verifrt.Choose("op", 3)
	var body []byte
	switch op {
	case 0: // memory.fill
		body = []byte{0x20, 0x00, 0x20, 0x01, 0x20, 0x02, 0xfc, 0x0b, 0x00}
	case 1: // memory.copy
		body = []byte{0x20, 0x00, 0x20, 0x01, 0x20, 0x02, 0xfc, 0x0a, 0x00, 0x00}
	case 2: // memory.init of a 4-byte passive segment (encoded below)
		body = []byte{0x20, 0x00, 0x20, 0x01, 0x20, 0x02, 0xfc, 0x08, 0x00, 0x00}
	}
	m := &verifModule{tableMin: -1, hasMem: true, memMin: 1, memMax: 65536,
		funcs: []verifFunc{{params: []byte{vI32, vI32, vI32}, export: "f", body: body}}}
	bin := m.encode()
	if op == 2 {
		bin = verifAddPassiveData(bin, []byte{0xa1, 0xa2, 0xa3, 0xa4})
	}
	vi, err := verifInstantiate(ctx, bin, "m", nil, nil, nil, false)
	if err != nil {
		verifrt.Assert(false, "by-construction valid module is accepted")
		return
	}
	size := verifSymMemory(vi)
	mem := vi.inst.MemoryInstance.Buffer
	a, b, n := verifrt.U32("a"), verifrt.U32("b"), verifrt.U32("n")
	probe := verifrt.U64("probe")
	verifrt.Assume(probe < size)
	if op == 0 {
		// the interpreter fills by doubling copies: the loop count grows with n, so n is bounded and each length is its own path
		n = uint32(verifrt.Choose("fill", 10))
	}
	_, err = vi.inst.ExportedFunction("f").Call(ctx, uint64(a), uint64(b), uint64(n))
	var inb bool
	switch op {
	case 0:
		inb = uint64(a)+uint64(n) <= size
	case 1:
		inb = uint64(a)+uint64(n) <= size && uint64(b)+uint64(n) <= size
	case 2:
		inb = uint64(a)+uint64(n) <= size && uint64(b)+uint64(n) <= 4
	}
	verifrt.Assert(verifIsOOB(err) == !inb && (err == nil) == inb, "bulk operation traps with out-of-bounds iff a range exceeds its size")
	inDst := inb && probe >= uint64(a) && probe < uint64(a)+uint64(n)
	if !inDst {
		verifrt.Assert(mem[probe] == verifrt.Initial(mem, probe), "bytes outside the destination range are unchanged (all bytes on trap)")
		verifrt.Cover("outside")
	} else {
		switch op {
		case 0:
			verifrt.Assert(mem[probe] == byte(b), "memory.fill writes the value")
		case 1:
			verifrt.Assert(mem[probe] == verifrt.Initial(mem, uint64(b)+(probe-uint64(a))), "memory.copy copies the original source bytes (overlap-safe)")
		case 2:
			verifrt.Assert(mem[probe] == []byte{0xa1, 0xa2, 0xa3, 0xa4}[uint64(b)+(probe-uint64(a))], "memory.init copies the segment bytes")
		}
		verifrt.Cover("inside")
	}
}

// VerifC02_ComputedBase: the base address is the result of an earlier i32 instruction in the same function (not a
// parameter): the access must trap exactly when the 32-bit result plus the static offset plus the width exceeds the size.
//verif:opts split=op:8
func VerifC02_ComputedBase() {
	ctx := context.Background()
	x, y := verifrt.U32("x"), verifrt.U32("y")
	sx, sy := int32(x), int32(y)
	var op []byte
	var base uint32
	switch verifrt.Choose("op", 8) {
	case 0: // rem_s
		verifrt.Assume(y != 0)
		op = []byte{0x6f}
		if sy == -1 {
			base = 0
		} else {
			base = uint32(sx % sy)
		}
	case 1: // div_s
		verifrt.Assume(y != 0 && !(sx == -2147483648 && sy == -1))
		op, base = []byte{0x6d}, uint32(sx/sy)
	case 2:
		op, base = []byte{0x75}, uint32(sx>>(y%32)) // shr_s
	case 3:
		op, base = []byte{0x6b}, x-y // sub
	case 4:
		op, base = []byte{0x1a, 0xc0}, uint32(int32(int8(x))) // drop y ; extend8_s
	case 5:
		op, base = []byte{0x1a, 0xc1}, uint32(int32(int16(x))) // drop y ; extend16_s
	case 6:
		op, base = []byte{0x6c}, x*y // mul
	case 7:
		op, base = []byte{0x6a}, x+y // add
	}
	// (func (param i32 i32) (result i32) local.get 0 local.get 1 <op> i32.load8_u offset=16)
	body := append(append([]byte{0x20, 0x00, 0x20, 0x01}, op...), 0x2d, 0x00, 0x10)
	m := &verifModule{tableMin: -1, hasMem: true, memMin: 1, memMax: 65536,
		funcs: []verifFunc{{params: []byte{vI32, vI32}, results: []byte{vI32}, export: "f", body: body}}}
	vi, err := verifInstantiate(ctx, m.encode(), "m", nil, nil, nil, false)
	if err != nil {
		verifrt.Assert(false, "by-construction valid module is accepted")
		return
	}
	size := verifSymMemory(vi)
	mem := vi.inst.MemoryInstance.Buffer
	res, err := vi.inst.ExportedFunction("f").Call(ctx, uint64(x), uint64(y))
	ea := uint64(base) + 16
	inb := ea+1 <= size
	verifrt.Assert(verifIsOOB(err) == !inb && (err == nil) == inb, "an access based on a computed address traps iff result+offset+width > size")
	if inb && err == nil {
		verifrt.Assert(len(res) == 1 && res[0] == uint64(verifrt.Initial(mem, ea)), "and reads exactly the addressed byte")
		verifrt.Cover("loaded")
	}
}

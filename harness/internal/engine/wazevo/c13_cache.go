//go:build verif

package wazevo

import (
	"bytes"
	"io"
	"unsafe"

	"github.com/tetratelabs/wazero/internal/filecache"
	"github.com/tetratelabs/wazero/internal/verifrt"
	"github.com/tetratelabs/wazero/internal/wasm"
)

type verifCache struct {
	content []byte
	deleted int
}

func (c *verifCache) Get(filecache.Key) (io.ReadCloser, bool, error) {
	return io.NopCloser(bytes.NewReader(c.content)), true, nil
}
func (c *verifCache) Add(filecache.Key, io.Reader) error { return nil }
func (c *verifCache) Delete(filecache.Key) error        { c.deleted++; return nil }

const verifOurVersion = "1.2.3"

// VerifC13_Deserialize: an entry produced by the real serializeCompiledModule for an arbitrary compiled module (0..2
// function offsets, 0..3 code bytes, optional source map, all values symbolic), written by a wazero of an arbitrary
// version string (0..7 symbolic bytes) and then cut to any length, is read back by the real
// getCompiledModuleFromCache / deserializeCompiledModule:
//   - it is used (hit) only if the version is ours and what was read equals the module that was written - a truncated
//     entry is never accepted with different content;
//   - otherwise it is reported (error) or discarded (Delete called, stale), never a Go run-time panic;
//   - the complete entry of our version round-trips exactly.
//verif:opts split=nfuncs:3 wall=900
func VerifC13_Deserialize() {
	nf := verifrt.Choose("nfuncs", 3)
	nx := verifrt.Choose("ncode", 4)
	hasSM := nx > 0 && verifrt.Choose("sourcemap", 2) == 1
	cm := &compiledModule{executables: &executables{}}
	names := []string{"off0", "off1"}
	for i := 0; i < nf; i++ {
		cm.functionOffsets = append(cm.functionOffsets, int(verifrt.U64(names[i])))
	}
	if nx > 0 {
		cm.executable = make([]byte, nx)
		code := verifrt.U32("code")
		for i := range cm.executable {
			cm.executable[i] = byte(code >> (8 * i))
		}
	}
	var rel uint64
	if hasSM {
		rel = verifrt.U64("smExe")
		cm.sourceMap.wasmBinaryOffsets = []uint64{verifrt.U64("smWasm")}
		cm.sourceMap.executableOffsets = []uintptr{uintptr(unsafe.Pointer(&cm.executable[0])) + uintptr(rel)}
	}
	// the version that wrote the entry
	vlen := verifrt.Choose("verlen", 8)
	ver := make([]byte, vlen)
	vbits := verifrt.U64("ver")
	for i := range ver {
		ver[i] = byte(vbits >> (8 * i))
	}
	sameVersion := string(ver) == verifOurVersion
	full, err := io.ReadAll(serializeCompiledModule(string(ver), cm))
	if err != nil {
		panic(err)
	}
	cut := verifrt.Choose("cut", len(full)+1)
	cache := &verifCache{content: full[:cut]}
	e := &engine{fileCache: cache, wazeroVersion: verifOurVersion}
	got, hit, err := e.getCompiledModuleFromCache(&wasm.Module{ID: wasm.ModuleID{1, 2, 3}})
	if hit && err == nil {
		verifrt.Assert(got != nil, "a hit returns a module")
		verifrt.Assert(sameVersion, "an entry written by a different wazero version is never used")
		if got != nil {
			same := len(got.functionOffsets) == nf && len(got.executable) == nx
			for i := 0; same && i < nf; i++ {
				same = got.functionOffsets[i] == cm.functionOffsets[i]
			}
			for i := 0; same && i < nx; i++ {
				same = got.executable[i] == cm.executable[i]
			}
			if same && hasSM {
				same = len(got.sourceMap.wasmBinaryOffsets) == 1 && len(got.sourceMap.executableOffsets) == 1 &&
					got.sourceMap.wasmBinaryOffsets[0] == cm.sourceMap.wasmBinaryOffsets[0] &&
					uint64(got.sourceMap.executableOffsets[0]-uintptr(unsafe.Pointer(&got.executable[0]))) == rel
			} else if same {
				same = len(got.sourceMap.executableOffsets) == 0
			}
			verifrt.Assert(same, "an entry that is used equals the complete entry that was written (a truncated entry is never accepted with other content)")
		}
		verifrt.Cover("hit")
	} else {
		verifrt.Assert(err != nil || cache.deleted == 1, "an unusable entry is reported (error) or discarded (deleted)")
		if cut == len(full) {
			verifrt.Assert(!sameVersion, "the complete entry of the running version is accepted")
		}
		if cache.deleted == 1 {
			verifrt.Cover("stale")
		}
		if err != nil {
			verifrt.Cover("reported")
		}
	}
}

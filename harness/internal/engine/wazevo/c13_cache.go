//go:build verif

package wazevo

import (
	"bytes"
	"context"
	"io"
	"unsafe"

	"github.com/tetratelabs/wazero/api"
	"github.com/tetratelabs/wazero/experimental"
	"github.com/tetratelabs/wazero/internal/engine/interpreter"
	"github.com/tetratelabs/wazero/internal/engine/wazevo/backend"
	"github.com/tetratelabs/wazero/internal/engine/wazevo/ssa"
	"github.com/tetratelabs/wazero/internal/wasm/binary"

	"github.com/tetratelabs/wazero/internal/filecache"
	"github.com/tetratelabs/wazero/internal/verifrt"
	"github.com/tetratelabs/wazero/internal/wasm"
)

type verifCache struct {
	content []byte
	deleted int
}

func (c *verifCache) Get(filecache.Key) (io.ReadCloser, bool, error) {
	return io.NopCloser(bytes.NewReader(c.content)), true, nil
}
func (c *verifCache) Add(filecache.Key, io.Reader) error { return nil }
func (c *verifCache) Delete(filecache.Key) error        { c.deleted++; return nil }

const verifOurVersion = "1.2.3"

// VerifC13_Deserialize: an entry produced by the real serializeCompiledModule for an arbitrary compiled module (0..2
// function offsets, 0..3 concrete code bytes, optional source map, offsets symbolic), written by a wazero of an arbitrary
// version string (0..12 symbolic bytes) and then cut to any length, is read back by the real
// getCompiledModuleFromCache / deserializeCompiledModule:
//   - it is used (hit) only if the version is ours and what was read equals the module that was written - a truncated
//     entry is never accepted with different content;
//   - otherwise it is reported (error) or discarded (Delete called, stale), never a Go run-time panic;
//   - the complete entry of our version round-trips exactly.
//verif:opts split=nfuncs:3 wall=900
func VerifC13_Deserialize() {
	nf := verifrt.Choose("nfuncs", 3)
	nx := verifrt.Choose("ncode", 4)
	hasSM := nx > 0 && verifrt.Choose("sourcemap", 2) == 1
	cm := &compiledModule{executables: &executables{}}
	names := []string{"off0", "off1"}
	for i := 0; i < nf; i++ {
		cm.functionOffsets = append(cm.functionOffsets, int(verifrt.U64(names[i])))
	}
	if nx > 0 {
		cm.executable = make([]byte, nx)
		// concrete code bytes: the checksum (CRC-32C, table driven) over symbolic bytes makes every later query slow, and
		// the claim here is about truncation and versions, not about corrupted code
		for i := range cm.executable {
			cm.executable[i] = byte(0xc3 - i)
		}
	}
	var rel uint64
	if hasSM {
		rel = verifrt.U64("smExe")
		cm.sourceMap.wasmBinaryOffsets = []uint64{verifrt.U64("smWasm")}
		cm.sourceMap.executableOffsets = []uintptr{uintptr(unsafe.Pointer(&cm.executable[0])) + uintptr(rel)}
	}
	// the version that wrote the entry
	// lengths around ours (5) and around the point where the cached version overruns the header read for ours (5+4)
	vlen := []int{0, 4, 5, 6, 9, 12}[verifrt.Choose("verlen", 6)]
	ver := make([]byte, vlen)
	vbits, vbits2 := verifrt.U64("ver"), verifrt.U64("ver2")
	for i := range ver {
		if i < 8 {
			ver[i] = byte(vbits >> (8 * i))
		} else {
			ver[i] = byte(vbits2 >> (8 * (i - 8)))
		}
	}
	sameVersion := string(ver) == verifOurVersion
	full, err := io.ReadAll(serializeCompiledModule(string(ver), cm))
	if err != nil {
		panic(err)
	}
	// every truncation length for an entry of our version's length; a few for the others (they are stale whatever follows)
	var cut int
	if vlen == len(verifOurVersion) {
		cut = verifrt.Choose("cut", len(full)+1)
	} else {
		cut = []int{len(full), len(full) - 1, 7, 0}[verifrt.Choose("cutForeign", 4)]
	}
	cache := &verifCache{content: full[:cut]}
	e := &engine{fileCache: cache, wazeroVersion: verifOurVersion}
	got, hit, err := e.getCompiledModuleFromCache(&wasm.Module{ID: wasm.ModuleID{1, 2, 3}})
	if hit && err == nil {
		verifrt.Assert(got != nil, "a hit returns a module")
		verifrt.Assert(sameVersion, "an entry written by a different wazero version is never used")
		if got != nil {
			same := len(got.functionOffsets) == nf && len(got.executable) == nx
			for i := 0; same && i < nf; i++ {
				same = got.functionOffsets[i] == cm.functionOffsets[i]
			}
			for i := 0; same && i < nx; i++ {
				same = got.executable[i] == cm.executable[i]
			}
			if same && hasSM {
				same = len(got.sourceMap.wasmBinaryOffsets) == 1 && len(got.sourceMap.executableOffsets) == 1 &&
					got.sourceMap.wasmBinaryOffsets[0] == cm.sourceMap.wasmBinaryOffsets[0] &&
					uint64(got.sourceMap.executableOffsets[0]-uintptr(unsafe.Pointer(&got.executable[0]))) == rel
			} else if same {
				same = len(got.sourceMap.executableOffsets) == 0
			}
			verifrt.Assert(same, "an entry that is used equals the complete entry that was written (a truncated entry is never accepted with other content)")
		}
		verifrt.Cover("hit")
	} else {
		verifrt.Assert(err != nil || cache.deleted == 1, "an unusable entry is reported (error) or discarded (deleted)")
		if cut == len(full) {
			verifrt.Assert(!sameVersion, "the complete entry of the running version is accepted")
		}
		if cache.deleted == 1 {
			verifrt.Cover("stale")
		}
		if err != nil {
			verifrt.Cover("reported")
		}
	}
}

// ---- C12: a compiled module obtained from the file cache behaves like a freshly compiled one

type verifStoreCache struct{ content []byte }

func (c *verifStoreCache) Get(filecache.Key) (io.ReadCloser, bool, error) {
	if c.content == nil {
		return nil, false, nil
	}
	return io.NopCloser(bytes.NewReader(c.content)), true, nil
}
func (c *verifStoreCache) Add(_ filecache.Key, r io.Reader) (err error) {
	c.content, err = io.ReadAll(r)
	return
}
func (c *verifStoreCache) Delete(filecache.Key) error { c.content = nil; return nil }

func verifNewEngine(fc filecache.Cache) *engine {
	ctx := context.Background()
	machine := newMachine()
	be := backend.NewCompiler(ctx, machine, ssa.NewBuilder())
	e := &engine{compiledModules: map[wasm.ModuleID]*compiledModule{}, setFinalizer: func(interface{}, interface{}) {},
		machine: machine, be: be, fileCache: fc, wazeroVersion: verifOurVersion}
	e.compileSharedFunctions()
	return e
}

type verifLsn struct{}

func (verifLsn) Before(context.Context, api.Module, api.FunctionDefinition, []uint64, experimental.StackIterator) {
}
func (verifLsn) After(context.Context, api.Module, api.FunctionDefinition, []uint64) {}
func (verifLsn) Abort(context.Context, api.Module, api.FunctionDefinition, error)    {}

func verifDecode(bin []byte, listeners []experimental.FunctionListener, ensureTermination bool) *wasm.Module {
	m, err := binary.DecodeModule(bin, api.CoreFeaturesV2, 65536, false, false, false)
	if err != nil {
		panic(err)
	}
	if err = m.Validate(api.CoreFeaturesV2); err != nil {
		panic(err)
	}
	m.BuildMemoryDefinitions()
	m.AssignModuleID(bin, listeners, ensureTermination)
	return m
}

// VerifC12_CacheHitEqualsFreshCompile: a module (memory, passive data segment, two functions one of which uses
// memory.init/data.drop) is compiled by one engine and stored in the file cache, then obtained by a second engine (another
// runtime, same cache) through the cache-hit path, under each listener setting (none / a factory that returns nil for
// every function / listeners on a subset) and termination setting: the compiled module the second engine ends up with
// has the same machine code, function offsets, termination flag and - crucially - the same module-context layout
// (offsets of memory, globals, tables, data/element instances, listener trampolines) the code was compiled against.
//verif:opts split=listeners:3 wall=1500
func VerifC12_CacheHitEqualsFreshCompile() {
	ctx := context.Background()
	spec := &interpreter.VerifModuleSpec{HasMem: true, MemMin: 1, MemMax: 2, GlobalTypes: []byte{interpreter.VI32}, GlobalInits: []int64{1},
		Funcs: []interpreter.VerifFuncSpec{
			{Params: []byte{interpreter.VI32}, Results: []byte{interpreter.VI32}, Export: "f", Body: []byte{0x20, 0x00, 0x41, 0x00, 0x41, 0x04, 0xfc, 0x08, 0x00, 0x00, 0x20, 0x00, 0x28, 0x02, 0x00}},
			{Export: "g", Body: []byte{0xfc, 0x09, 0x00}},
		}}
	bin := interpreter.VerifAddPassiveData(interpreter.VerifEncode(spec), []byte{1, 2, 3, 4})
	var listeners []experimental.FunctionListener
	switch verifrt.Choose("listeners", 3) {
	case 1:
		listeners = []experimental.FunctionListener{nil, nil}
	case 2:
		listeners = []experimental.FunctionListener{verifLsn{}, nil}
	}
	term := verifrt.Choose("ensureTermination", 2) == 1
	cache := &verifStoreCache{}
	e1 := verifNewEngine(cache)
	m1 := verifDecode(bin, listeners, term)
	err := e1.CompileModule(ctx, m1, listeners, term)
	verifrt.Assert(err == nil, "fresh compilation succeeds")
	fresh := e1.compiledModules[m1.ID]
	verifrt.Assert(fresh != nil && cache.content != nil, "the compiled module is kept and written to the file cache")
	if err != nil || fresh == nil || cache.content == nil {
		return
	}
	e2 := verifNewEngine(cache)
	m2 := verifDecode(bin, listeners, term)
	err = e2.CompileModule(ctx, m2, listeners, term)
	verifrt.Assert(err == nil, "compilation with a warm cache succeeds")
	hit := e2.compiledModules[m2.ID]
	if err != nil || hit == nil {
		verifrt.Assert(false, "the module is available after a cache hit")
		return
	}
	verifrt.Assert(hit.offsets == fresh.offsets, "a cache hit uses the module-context layout the cached code was compiled against")
	verifrt.Assert(hit.ensureTermination == fresh.ensureTermination, "a cache hit keeps the termination setting")
	same := len(hit.functionOffsets) == len(fresh.functionOffsets) && len(hit.executable) == len(fresh.executable)
	for i := 0; same && i < len(fresh.functionOffsets); i++ {
		same = hit.functionOffsets[i] == fresh.functionOffsets[i]
	}
	for i := 0; same && i < len(fresh.executable); i++ {
		same = hit.executable[i] == fresh.executable[i]
	}
	verifrt.Assert(same, "a cache hit yields the machine code and function offsets of the fresh compilation")
	verifrt.Assert(len(hit.listeners) == len(fresh.listeners) && len(hit.listenerBeforeTrampolines) == len(fresh.listenerBeforeTrampolines), "a cache hit has the listener tables of a fresh compilation")
	verifrt.Cover("hit")
}

//go:build verif

package amd64

// A reference evaluator of the amd64 back end's FINAL machine instructions (after instruction selection, register
// allocation, prologue/epilogue insertion and expansion of pseudo instructions; the only step after it is encoding to
// bytes). Harness side: it gives each machine instruction kind its x86-64 meaning over a register file, flags, a stack
// and the same memory/context model as the SSA evaluator; every dereference outside the stack is an obligation.

import (
	"context"
	"math/bits"

	"github.com/tetratelabs/wazero/internal/engine/interpreter"
	"github.com/tetratelabs/wazero/internal/engine/wazevo/backend"
	"github.com/tetratelabs/wazero/internal/engine/wazevo/backend/regalloc"
	"github.com/tetratelabs/wazero/internal/engine/wazevo/frontend"
	"github.com/tetratelabs/wazero/internal/engine/wazevo/ssa"
	"github.com/tetratelabs/wazero/internal/engine/wazevo/wazevoapi"
	"github.com/tetratelabs/wazero/internal/verifrt"
)

const (
	mStackTop = uint64(0x6000_0000_0000) // initial rsp; the stack grows down from here
	mRetDone  = uint64(0x7fff_0000_0000) // return address of the outermost frame
	mLabelTag = uint64(0x7ffe_0000_0000) // value of `lea label`
)

var mTrace = false

const (
	mOutReturn = iota
	mOutTrap
	mOutUnsupported
	mOutCall // stopped at an indirect call to mState.stopAtCall (s.stoppedAt is the call instruction)
)

type mFunc struct {
	m      *machine
	labels map[label]*instruction
	abi    *backend.FunctionABI
	tables []mJmpTable
}

// mJmpTable is one jump-table island: it starts at label begin and holds, per entry, the distance from begin to the target.
type mJmpTable struct {
	begin   label
	targets []uint32
}

// code addresses of the model: every label lives on its own 4 KiB page
const mCodeBase = uint64(0x7ffd_0000_0000)

func mLabelAddr(l label) uint64 { return mCodeBase + uint64(l)<<12 }

type mState struct {
	w     *frontend.VWorld
	funcs []*mFunc
	gpr   [16]uint64
	xmm   [16][2]uint64
	// flags as the last flag-setting operation: result and operands
	fKind      int // 1 sub/cmp, 2 logic/test (CF=OF=0), 3 add
	fA, fB, fR uint64
	f64        bool
	stack      map[uint64]mStackEnt
	steps      int
	exitCode   uint64
	unsupp     string
	stoppedAt  *instruction
	cur        *mFunc
	stopAtCall uint64            // non-zero: an indirect call to this address stops the run with mOutCall
	ectx       map[uint64]uint64 // execution-context words written by the code (saved stack/frame pointers)
}

func (s *mState) unsupported(why string) {
	if s.unsupp == "" {
		s.unsupp = why
	}
}

func mCompile(w *frontend.VWorld) []*mFunc {
	var out []*mFunc
	for i := 0; i < w.NumFuncs(); i++ {
		m := NewBackend().(*machine)
		be := backend.NewCompiler(context.Background(), m, w.Builder(i))
		if _, _, err := be.Compile(context.Background()); err != nil {
			return nil
		}
		f := &mFunc{m: m, labels: map[label]*instruction{}, abi: m.currentABI}
		for l := label(0); l < m.nextLabel; l++ {
			if pos := m.labelPositionPool.Get(int(l)); pos != nil && pos.begin != nil {
				f.labels[l] = pos.begin
			}
		}
		for in := m.rootInstr; in != nil; in = in.next {
			if in.kind == nop0 && in.nop0Label() != 0 {
				if _, ok := f.labels[in.nop0Label()]; !ok {
					f.labels[in.nop0Label()] = in
				}
			}
			if in.kind == jmpTableIsland && in.prev != nil && in.prev.kind == nop0 && in.prev.nop0Label() != 0 {
				f.tables = append(f.tables, mJmpTable{begin: in.prev.nop0Label(), targets: m.jmpTableTargets[in.u1][:in.u2]})
			}
		}
		out = append(out, f)
	}
	return out
}

func ri(v regalloc.VReg) int { return int(v.RealReg()) - int(rax) }

func (s *mState) reg(v regalloc.VReg) uint64 {
	i := ri(v)
	if i < 0 || i >= 16 {
		s.unsupported("non-gpr register as integer")
		return 0
	}
	return s.gpr[i]
}

func (s *mState) setReg(v regalloc.VReg, x uint64, _64 bool) {
	i := ri(v)
	if i < 0 || i >= 16 {
		s.unsupported("non-gpr register as integer")
		return
	}
	if !_64 {
		x = uint64(uint32(x)) // 32-bit writes zero the upper half
	}
	s.gpr[i] = x
}

func sext32(v uint32) uint64 { return uint64(int64(int32(v))) }

func (s *mState) addr(a *amode) uint64 {
	switch a.kind() {
	case amodeImmReg:
		return s.reg(a.base) + sext32(a.imm32)
	case amodeImmRBP:
		return s.gpr[ri(rbpVReg)] + sext32(a.imm32)
	case amodeRegRegShift:
		return s.reg(a.base) + s.reg(a.index)<<a.shift() + sext32(a.imm32)
	}
	s.unsupported("rip-relative address")
	return 0
}

func (s *mState) isStack(addr uint64) bool { return mStackTop-addr <= 1<<20 }

type mStackEnt struct {
	width uint64
	v     uint64
}

// stack model: entries keyed by (concrete) address; a load that matches a store exactly returns the stored term, anything
// else is assembled byte-wise.
func (s *mState) stackByte(a uint64) uint64 {
	for back := uint64(0); back < 16; back++ {
		if e, ok := s.stack[a-back]; ok && back < e.width {
			return (e.v >> (8 * back)) & 0xff
		}
	}
	return 0
}

func (s *mState) stackLoad(a, width uint64) uint64 {
	if e, ok := s.stack[a]; ok && e.width == width {
		return e.v & wmask(width)
	}
	var v uint64
	for i := uint64(0); i < width; i++ {
		v |= s.stackByte(a+i) << (8 * i)
	}
	return v
}

func (s *mState) stackStore(a, width, v uint64) {
	// split every entry that overlaps [a, a+width) without being exactly replaced
	for start := a - 15; start < a+width; start++ {
		e, ok := s.stack[start]
		if !ok || start+e.width <= a || (start == a && e.width == width) {
			continue
		}
		delete(s.stack, start)
		for i := uint64(0); i < e.width; i++ {
			if p := start + i; p < a || p >= a+width {
				s.stack[p] = mStackEnt{width: 1, v: (e.v >> (8 * i)) & 0xff}
			}
		}
	}
	s.stack[a] = mStackEnt{width: width, v: v & wmask(width)}
}

func isSavedPtrSlot(addr uint64) bool {
	off := wazevoapi.Offset(addr - frontend.VExecCtxBase)
	return off == wazevoapi.ExecutionContextOffsetOriginalFramePointer || off == wazevoapi.ExecutionContextOffsetOriginalStackPointer
}

func (s *mState) loadMem(addr, width uint64) uint64 {
	if s.unsupp != "" {
		return 0
	}
	if s.isStack(addr) {
		return s.stackLoad(addr, width)
	}
	if width == 8 && s.ectx != nil && isSavedPtrSlot(addr) {
		if v, ok := s.ectx[addr]; ok {
			return v
		}
	}
	if addr-mLabelTag < 1<<20 {
		s.unsupported("load from the code segment")
		return 0
	}
	if addr-mCodeBase < 1<<28 {
		// an entry of one of the current function's jump tables
		if width == 8 && s.cur != nil {
			for _, t := range s.cur.tables {
				for i, tgt := range t.targets {
					if addr == mLabelAddr(t.begin)+8*uint64(i) {
						return mLabelAddr(label(tgt)) - mLabelAddr(t.begin)
					}
				}
			}
		}
		verifrt.Assert(false, "a load from the code segment reads an entry of a jump table of the running function")
		s.unsupported("load from the code segment outside a jump table")
		return 0
	}
	return s.w.Load(addr, width)
}

func (s *mState) storeMem(addr, width, v uint64) {
	if s.unsupp != "" {
		return
	}
	if s.isStack(addr) {
		s.stackStore(addr, width, v)
		return
	}
	if width == 8 && s.ectx != nil && isSavedPtrSlot(addr) {
		s.ectx[addr] = v
		return
	}
	s.w.Store(addr, width, v)
}

func wmask(width uint64) uint64 {
	if width >= 8 {
		return ^uint64(0)
	}
	return uint64(1)<<(8*width) - 1
}

// src reads an operand as a source of the given width (bytes).
func (s *mState) src(o *operand, _64 bool) uint64 {
	width := uint64(4)
	if _64 {
		width = 8
	}
	switch o.kind {
	case operandKindReg:
		v := s.reg(o.reg())
		if !_64 {
			v = uint64(uint32(v))
		}
		return v
	case operandKindMem:
		return s.loadMem(s.addr(o.addressMode()), width)
	case operandKindImm32:
		v := sext32(o.imm32())
		if !_64 {
			v = uint64(uint32(v))
		}
		return v
	}
	s.unsupported("label as a source")
	return 0
}

func (s *mState) setFlags(kind int, a, b, r uint64, _64 bool) { s.fKind, s.fA, s.fB, s.fR, s.f64 = kind, a, b, r, _64 }

func (s *mState) cond(c cond) bool {
	n := uint(32)
	if s.f64 {
		n = 64
	}
	tr := func(v uint64) uint64 {
		if n == 64 {
			return v
		}
		return uint64(uint32(v))
	}
	sx := func(v uint64) int64 {
		if n == 64 {
			return int64(v)
		}
		return int64(int32(uint32(v)))
	}
	a, b, r := tr(s.fA), tr(s.fB), tr(s.fR)
	zf := r == 0
	sf := sx(r) < 0
	var cf, of bool
	switch s.fKind {
	case 1: // r = b - a  (cmp a, b in AT&T order: dst b minus src a)
		cf = b < a
		of = (sx(b) < 0) != (sx(a) < 0) && (sx(r) < 0) != (sx(b) < 0)
	case 3: // r = b + a
		cf = r < b
		of = (sx(b) < 0) == (sx(a) < 0) && (sx(r) < 0) != (sx(b) < 0)
	}
	switch c {
	case condO:
		return of
	case condNO:
		return !of
	case condB:
		return cf
	case condNB:
		return !cf
	case condZ:
		return zf
	case condNZ:
		return !zf
	case condBE:
		return cf || zf
	case condNBE:
		return !cf && !zf
	case condS:
		return sf
	case condNS:
		return !sf
	case condL:
		return sf != of
	case condNL:
		return sf == of
	case condLE:
		return zf || sf != of
	case condNLE:
		return !zf && sf == of
	}
	s.unsupported("parity condition")
	return false
}

func (s *mState) push(v uint64) {
	s.gpr[ri(rspVReg)] -= 8
	s.storeMem(s.gpr[ri(rspVReg)], 8, v)
}

func (s *mState) pop() uint64 {
	v := s.loadMem(s.gpr[ri(rspVReg)], 8)
	s.gpr[ri(rspVReg)] += 8
	return v
}

// run executes function fi from its first instruction until the outermost ret / an exit.
func (s *mState) run(fi int) int {
	s.push(mRetDone)
	return s.runFrom(s.funcs[fi], s.funcs[fi].m.rootInstr)
}

// runFrom executes from instruction in of function cur until the outermost ret / an exit sequence (s.stoppedAt).
func (s *mState) runFrom(cur *mFunc, in *instruction) int {
	type frame struct {
		f   *mFunc
		ret *instruction
	}
	var frames []frame
	for in != nil {
		s.steps++
		if s.steps > 3000 || s.unsupp != "" || s.w.Unsupported() != "" {
			s.unsupported("step bound")
			return mOutUnsupported
		}
		next := in.next
		_64 := in.b1
		s.cur = cur
		if mTrace {
			println("  ", in.String(), " rax=", s.gpr[0], "rcx=", s.gpr[1], "rbx=", s.gpr[3], "rsp=", s.gpr[4])
		}
		switch in.kind {
		case nop0, sourceOffsetInfo, defineUninitializedReg, nopUseReg:
		case imm:
			s.setReg(in.op2.reg(), in.u1, _64)
		case movRR:
			s.setReg(in.op2.reg(), s.src(&in.op1, _64), _64)
		case zeros:
			s.setReg(in.op2.reg(), 0, true)
		case aluRmiR:
			a := s.src(&in.op1, _64)
			b := s.src(&in.op2, _64)
			var r uint64
			switch aluRmiROpcode(in.u1) {
			case aluRmiROpcodeAdd:
				r = b + a
				s.setFlags(3, a, b, r, _64)
			case aluRmiROpcodeSub:
				r = b - a
				s.setFlags(1, a, b, r, _64)
			case aluRmiROpcodeAnd:
				r = b & a
				s.setFlags(2, a, b, r, _64)
			case aluRmiROpcodeOr:
				r = b | a
				s.setFlags(2, a, b, r, _64)
			case aluRmiROpcodeXor:
				r = b ^ a
				s.setFlags(2, a, b, r, _64)
			case aluRmiROpcodeMul:
				r = b * a
				s.setFlags(2, a, b, r, _64)
			default:
				s.unsupported("alu opcode")
			}
			s.setReg(in.op2.reg(), r, _64)
		case cmpRmiR:
			a := s.src(&in.op1, _64)
			b := s.src(&in.op2, _64)
			if in.u1 != 0 {
				s.setFlags(1, a, b, b-a, _64)
			} else {
				s.setFlags(2, a, b, b&a, _64)
			}
		case not:
			s.setReg(in.op1.reg(), ^s.src(&in.op1, _64), _64)
		case neg:
			v := s.src(&in.op1, _64)
			s.setReg(in.op1.reg(), -v, _64)
			s.setFlags(1, v, 0, -v, _64)
		case shiftR:
			v := s.src(&in.op2, _64)
			var cnt uint64
			if in.op1.kind == operandKindImm32 {
				cnt = uint64(in.op1.imm32())
			} else {
				cnt = s.gpr[ri(rcxVReg)]
			}
			n := uint64(32)
			if _64 {
				n = 64
			}
			cnt &= n - 1 // the hardware masks the count
			var r uint64
			switch shiftROp(in.u1) {
			case shiftROpShiftLeft:
				r = v << cnt
			case shiftROpShiftRightLogical:
				r = v >> cnt
			case shiftROpShiftRightArithmetic:
				if _64 {
					r = uint64(int64(v) >> cnt)
				} else {
					r = uint64(uint32(int32(uint32(v)) >> cnt))
				}
			case shiftROpRotateLeft:
				if _64 {
					r = bits.RotateLeft64(v, int(cnt))
				} else {
					r = uint64(bits.RotateLeft32(uint32(v), int(cnt)))
				}
			case shiftROpRotateRight:
				if _64 {
					r = bits.RotateLeft64(v, -int(cnt))
				} else {
					r = uint64(bits.RotateLeft32(uint32(v), -int(cnt)))
				}
			default:
				s.unsupported("shift opcode")
			}
			s.setReg(in.op2.reg(), r, _64)
			s.setFlags(2, 0, 0, r, _64)
		case unaryRmR:
			v := s.src(&in.op1, _64)
			var r uint64
			switch unaryRmROpcode(in.u1) {
			case unaryRmROpcodeLzcnt:
				if _64 {
					r = uint64(bits.LeadingZeros64(v))
				} else {
					r = uint64(bits.LeadingZeros32(uint32(v)))
				}
			case unaryRmROpcodeTzcnt:
				if _64 {
					r = uint64(bits.TrailingZeros64(v))
				} else {
					r = uint64(bits.TrailingZeros32(uint32(v)))
				}
			case unaryRmROpcodePopcnt:
				if _64 {
					r = uint64(bits.OnesCount64(v))
				} else {
					r = uint64(bits.OnesCount32(uint32(v)))
				}
			default:
				s.unsupported("bsr/bsf")
			}
			s.setReg(in.op2.reg(), r, _64)
		case movzxRmR, movsxRmR:
			var width uint64
			to64 := true
			switch extMode(in.u1) {
			case extModeBL:
				width, to64 = 1, false
			case extModeBQ:
				width = 1
			case extModeWL:
				width, to64 = 2, false
			case extModeWQ:
				width = 2
			case extModeLQ:
				width = 4
			}
			var v uint64
			if in.op1.kind == operandKindMem {
				v = s.loadMem(s.addr(in.op1.addressMode()), width)
			} else {
				v = s.reg(in.op1.reg()) & wmask(width)
			}
			if in.kind == movsxRmR {
				sh := 64 - 8*width
				v = uint64(int64(v<<sh) >> sh)
			}
			s.setReg(in.op2.reg(), v, to64)
		case mov64MR:
			s.setReg(in.op2.reg(), s.loadMem(s.addr(in.op1.addressMode()), 8), true)
		case movRM:
			s.storeMem(s.addr(in.op2.addressMode()), in.u1, s.reg(in.op1.reg())&wmask(in.u1))
		case lea:
			if in.op1.kind == operandKindLabel {
				s.setReg(in.op2.reg(), mLabelAddr(in.op1.label()), true)
			} else if in.op1.addressMode().kind() == amodeRipRel {
				s.setReg(in.op2.reg(), mLabelTag, true)
			} else {
				s.setReg(in.op2.reg(), s.addr(in.op1.addressMode()), true)
			}
		case setcc:
			old := s.reg(in.op2.reg())
			v := uint64(0)
			if s.cond(cond(in.u1)) {
				v = 1
			}
			s.setReg(in.op2.reg(), old&^0xff|v, true)
		case cmove:
			src := s.src(&in.op1, _64)
			dst := s.src(&in.op2, _64)
			if s.cond(cond(in.u1)) {
				dst = src
			}
			s.setReg(in.op2.reg(), dst, _64)
		case signExtendData:
			if _64 {
				s.gpr[ri(rdxVReg)] = uint64(int64(s.gpr[ri(raxVReg)]) >> 63)
			} else {
				s.gpr[ri(rdxVReg)] = uint64(uint32(int32(uint32(s.gpr[ri(raxVReg)])) >> 31))
			}
		case div:
			d := s.src(&in.op1, _64)
			signed := in.u1 != 0
			if _64 {
				lo, hi := s.gpr[ri(raxVReg)], s.gpr[ri(rdxVReg)]
				if d == 0 {
					verifrt.Assert(false, "compiled code never executes a division by zero (hardware fault)")
					verifrt.Assume(false)
				}
				if signed {
					// the compiler precedes idiv with cqo: rdx is the sign extension of rax
					verifrt.Assert(hi == uint64(int64(lo)>>63), "idivq operates on a sign-extended dividend")
					verifrt.Assert(!(int64(lo) == -1<<63 && int64(d) == -1), "compiled code never executes an overflowing idiv (hardware fault)")
					if int64(lo) == -1<<63 && int64(d) == -1 {
						verifrt.Assume(false)
					}
					s.gpr[ri(raxVReg)], s.gpr[ri(rdxVReg)] = uint64(int64(lo)/int64(d)), uint64(int64(lo)%int64(d))
				} else {
					verifrt.Assert(hi == 0, "divq operates on a zero-extended dividend")
					s.gpr[ri(raxVReg)], s.gpr[ri(rdxVReg)] = lo/d, lo%d
				}
			} else {
				lo, hi := uint32(s.gpr[ri(raxVReg)]), uint32(s.gpr[ri(rdxVReg)])
				d32 := uint32(d)
				if d32 == 0 {
					verifrt.Assert(false, "compiled code never executes a division by zero (hardware fault)")
					verifrt.Assume(false)
				}
				if signed {
					verifrt.Assert(hi == uint32(int32(lo)>>31), "idivl operates on a sign-extended dividend")
					verifrt.Assert(!(int32(lo) == -1<<31 && int32(d32) == -1), "compiled code never executes an overflowing idiv (hardware fault)")
					if int32(lo) == -1<<31 && int32(d32) == -1 {
						verifrt.Assume(false)
					}
					s.gpr[ri(raxVReg)], s.gpr[ri(rdxVReg)] = uint64(uint32(int32(lo)/int32(d32))), uint64(uint32(int32(lo)%int32(d32)))
				} else {
					verifrt.Assert(hi == 0, "divl operates on a zero-extended dividend")
					s.gpr[ri(raxVReg)], s.gpr[ri(rdxVReg)] = uint64(lo/d32), uint64(lo%d32)
				}
			}
		case mulHi:
			v := s.src(&in.op1, _64)
			if _64 {
				if in.u1 != 0 {
					s.unsupported("imulq wide")
				} else {
					hi, lo := bits.Mul64(s.gpr[ri(raxVReg)], v)
					s.gpr[ri(raxVReg)], s.gpr[ri(rdxVReg)] = lo, hi
				}
			} else {
				var p uint64
				if in.u1 != 0 {
					p = uint64(int64(int32(uint32(s.gpr[ri(raxVReg)]))) * int64(int32(uint32(v))))
				} else {
					p = uint64(uint32(s.gpr[ri(raxVReg)])) * uint64(uint32(v))
				}
				s.gpr[ri(raxVReg)], s.gpr[ri(rdxVReg)] = uint64(uint32(p)), p>>32
			}
		case xmmUnaryRmR, xmmMovRM, gprToXmm, xmmToGpr:
			s.xmmMove(in)
		case xmmRmR, xmmRmiReg, xmmRmRImm:
			s.xmmVec(in)
		case push64:
			s.push(s.src(&in.op1, true))
		case pop64:
			s.setReg(in.op1.reg(), s.pop(), true)
		case jmp:
			if in.op1.kind == operandKindLabel {
				next = cur.labels[in.op1.label()]
			} else {
				// computed jump: the target must be the address of a jump-table target of this function
				var v uint64
				if in.op1.kind == operandKindMem {
					v = s.loadMem(s.addr(in.op1.addressMode()), 8)
				} else {
					v = s.reg(in.op1.reg())
				}
				found := false
				for _, t := range cur.tables {
					for _, tgt := range t.targets {
						if !found && v == mLabelAddr(label(tgt)) {
							next, found = cur.labels[label(tgt)], true
						}
					}
				}
				verifrt.Assert(found, "a computed jump goes to one of the function's jump-table targets")
				if !found {
					s.unsupported("computed jump to an unknown address")
				}
			}
		case jmpIf:
			if s.cond(cond(in.u1)) {
				next = cur.labels[in.op1.label()]
			}
		case ret:
			ra := s.pop()
			if ra == mRetDone {
				return mOutReturn
			}
			if len(frames) == 0 {
				s.unsupported("return to an unknown address")
				return mOutUnsupported
			}
			fr := frames[len(frames)-1]
			frames = frames[:len(frames)-1]
			cur, next = fr.f, fr.ret
			s.w.Moved() // the callee may have grown the memory
		case call:
			fidx := uint32(ssa.FuncRef(in.u1))
			if fidx < s.w.ImportCount() {
				s.unsupported("direct call of an imported function")
				return mOutUnsupported
			}
			if len(frames) > 6 {
				s.unsupported("call depth")
				return mOutUnsupported
			}
			frames = append(frames, frame{f: cur, ret: in.next})
			s.push(mLabelTag) // the return address slot
			cur = s.funcs[fidx-s.w.ImportCount()]
			next = cur.m.rootInstr
		case callIndirect:
			var target uint64
			if in.op1.kind == operandKindMem {
				target = s.loadMem(s.addr(in.op1.addressMode()), 8)
			} else {
				target = s.reg(in.op1.reg())
			}
			if s.stopAtCall != 0 && target == s.stopAtCall {
				s.stoppedAt = in
				return mOutCall
			}
			switch wazevoapi.Offset(target - frontend.VTagBase) {
			case wazevoapi.ExecutionContextOffsetMemoryGrowTrampolineAddress:
				// Go-call ABI of the trampoline: delta is the first integer argument after the execution context
				delta := uint64(uint32(s.gpr[ri(regInfoArg(1))]))
				s.gpr[ri(raxVReg)] = s.w.Grow(delta)
			case wazevoapi.ExecutionContextOffsetCheckModuleExitCodeTrampolineAddress:
				if s.w.Closed() {
					s.exitCode = uint64(wazevoapi.ExitCodeCheckModuleExitCode)
					return mOutTrap
				}
			case wazevoapi.ExecutionContextOffsetStackGrowCallTrampolineAddress:
				verifrt.Assert(false, "the stack-bound check passes with a large stack")
			default:
				s.unsupported("indirect call")
				return mOutUnsupported
			}
		case exitSequence:
			s.exitCode = uint64(uint32(s.w.LoadExit()))
			s.stoppedAt = in
			return mOutTrap
		case ud2:
			s.unsupported("ud2 reached")
			return mOutUnsupported
		default:
			s.unsupported("machine instruction " + in.String())
			return mOutUnsupported
		}
		in = next
	}
	s.unsupported("fell off the end of the function")
	return mOutUnsupported
}

func xi(v regalloc.VReg) int { return int(v.RealReg()) - int(xmm0) }

// ---- a subset of the SSE/SSE4.1 vector instructions (what the v128 program family T6 compiles to)

// lanes applies f lane-wise to two 128-bit values split into lanes of the given width.
func lanes(a, b [2]uint64, bits uint, f func(x, y uint64) uint64) [2]uint64 {
	if bits == 64 {
		return [2]uint64{f(a[0], b[0]), f(a[1], b[1])}
	}
	var out [2]uint64
	mask := uint64(1)<<bits - 1
	for h := 0; h < 2; h++ {
		for sh := uint(0); sh < 64; sh += bits {
			out[h] |= (f((a[h]>>sh)&mask, (b[h]>>sh)&mask) & mask) << sh
		}
	}
	return out
}

func sextLane(x uint64, bits uint) uint64 { return uint64(int64(x<<(64-bits)) >> (64 - bits)) }

// xmmSrc reads a 128-bit source operand (register, or memory for the packed forms).
func (s *mState) xmmSrc(o *operand) [2]uint64 {
	if o.kind == operandKindMem {
		a := s.addr(o.addressMode())
		return [2]uint64{s.loadMem(a, 8), s.loadMem(a+8, 8)}
	}
	return s.xmm[xi(o.reg())]
}

func (s *mState) xmmVec(in *instruction) {
	op := sseOpcode(in.u1)
	switch in.kind {
	case xmmRmR:
		d := xi(in.op2.reg())
		if d < 0 || d >= 16 {
			s.unsupported("xmm destination")
			return
		}
		dst := s.xmm[d]
		switch op {
		case sseOpcodeMovsd: // register form merges the low quadword; memory form loads it and zeroes the rest
			if in.op1.kind == operandKindMem {
				s.xmm[d] = [2]uint64{s.loadMem(s.addr(in.op1.addressMode()), 8), 0}
			} else {
				s.xmm[d][0] = s.xmm[xi(in.op1.reg())][0]
			}
			return
		case sseOpcodeMovss:
			if in.op1.kind == operandKindMem {
				s.xmm[d] = [2]uint64{s.loadMem(s.addr(in.op1.addressMode()), 4), 0}
			} else {
				s.xmm[d][0] = dst[0]&^0xffffffff | s.xmm[xi(in.op1.reg())][0]&0xffffffff
			}
			return
		case sseOpcodeMovlhps: // dst.hi = src.lo
			s.xmm[d][1] = s.xmmSrc(&in.op1)[0]
			return
		}
		src := s.xmmSrc(&in.op1)
		add := func(x, y uint64) uint64 { return x + y }
		sub := func(x, y uint64) uint64 { return x - y } // dst - src: lanes(dst, src, ...)
		switch op {
		case sseOpcodePand:
			s.xmm[d] = [2]uint64{dst[0] & src[0], dst[1] & src[1]}
		case sseOpcodePor:
			s.xmm[d] = [2]uint64{dst[0] | src[0], dst[1] | src[1]}
		case sseOpcodePxor:
			s.xmm[d] = [2]uint64{dst[0] ^ src[0], dst[1] ^ src[1]}
		case sseOpcodePandn: // dst = NOT(dst) AND src
			s.xmm[d] = [2]uint64{^dst[0] & src[0], ^dst[1] & src[1]}
		case sseOpcodePcmpeqb, sseOpcodePcmpeqw, sseOpcodePcmpeqd, sseOpcodePcmpeqq:
			bits := map[sseOpcode]uint{sseOpcodePcmpeqb: 8, sseOpcodePcmpeqw: 16, sseOpcodePcmpeqd: 32, sseOpcodePcmpeqq: 64}[op]
			s.xmm[d] = lanes(dst, src, bits, func(x, y uint64) uint64 {
				var r uint64
				if x == y {
					r = ^uint64(0)
				}
				return r
			})
		case sseOpcodePmullw:
			s.xmm[d] = lanes(dst, src, 16, func(x, y uint64) uint64 { return x * y })
		case sseOpcodePmulld:
			s.xmm[d] = lanes(dst, src, 32, func(x, y uint64) uint64 { return x * y })
		case sseOpcodePminsb, sseOpcodePminsw, sseOpcodePminsd, sseOpcodePmaxsb, sseOpcodePmaxsw, sseOpcodePmaxsd,
			sseOpcodePminub, sseOpcodePminuw, sseOpcodePminud, sseOpcodePmaxub, sseOpcodePmaxuw, sseOpcodePmaxud:
			type mm struct {
				bits        uint
				signed, max bool
			}
			k := map[sseOpcode]mm{sseOpcodePminsb: {8, true, false}, sseOpcodePminsw: {16, true, false}, sseOpcodePminsd: {32, true, false},
				sseOpcodePmaxsb: {8, true, true}, sseOpcodePmaxsw: {16, true, true}, sseOpcodePmaxsd: {32, true, true},
				sseOpcodePminub: {8, false, false}, sseOpcodePminuw: {16, false, false}, sseOpcodePminud: {32, false, false},
				sseOpcodePmaxub: {8, false, true}, sseOpcodePmaxuw: {16, false, true}, sseOpcodePmaxud: {32, false, true}}[op]
			s.xmm[d] = lanes(dst, src, k.bits, func(x, y uint64) uint64 {
				var less bool // x < y
				if k.signed {
					less = int64(sextLane(x, k.bits)) < int64(sextLane(y, k.bits))
				} else {
					less = x < y
				}
				r := y
				if less != k.max {
					r = x
				}
				return r
			})
		case sseOpcodePshufb: // dst byte j = (mask byte j has bit 7) ? 0 : old dst byte (mask & 15)
			var out [2]uint64
			for j := uint(0); j < 16; j++ {
				m := (src[j/8] >> ((j % 8) * 8)) & 0xff
				idx := m & 15
				b := (dst[(idx>>3)&1] >> ((idx & 7) * 8)) & 0xff
				if m&0x80 != 0 {
					b = 0
				}
				out[j/8] |= b << ((j % 8) * 8)
			}
			s.xmm[d] = out
		case sseOpcodePaddb:
			s.xmm[d] = lanes(dst, src, 8, add)
		case sseOpcodePaddw:
			s.xmm[d] = lanes(dst, src, 16, add)
		case sseOpcodePaddd:
			s.xmm[d] = lanes(dst, src, 32, add)
		case sseOpcodePaddq:
			s.xmm[d] = lanes(dst, src, 64, add)
		case sseOpcodePsubb:
			s.xmm[d] = lanes(dst, src, 8, sub)
		case sseOpcodePsubw:
			s.xmm[d] = lanes(dst, src, 16, sub)
		case sseOpcodePsubd:
			s.xmm[d] = lanes(dst, src, 32, sub)
		case sseOpcodePsubq:
			s.xmm[d] = lanes(dst, src, 64, sub)
		default:
			s.unsupported("sse instruction " + in.String())
		}
	case xmmRmiReg: // packed shifts: the count is an immediate or the low quadword of an xmm register / memory operand
		d := xi(in.op2.reg())
		var cnt uint64
		switch in.op1.kind {
		case operandKindImm32:
			cnt = uint64(in.op1.imm32())
		case operandKindMem:
			cnt = s.loadMem(s.addr(in.op1.addressMode()), 8)
		default:
			cnt = s.xmm[xi(in.op1.reg())][0]
		}
		var bits uint
		var kind int // 0 shl, 1 shr logical, 2 shr arithmetic
		switch op {
		case sseOpcodePsllw:
			bits, kind = 16, 0
		case sseOpcodePslld:
			bits, kind = 32, 0
		case sseOpcodePsllq:
			bits, kind = 64, 0
		case sseOpcodePsrlw:
			bits, kind = 16, 1
		case sseOpcodePsrld:
			bits, kind = 32, 1
		case sseOpcodePsrlq:
			bits, kind = 64, 1
		case sseOpcodePsraw:
			bits, kind = 16, 2
		case sseOpcodePsrad:
			bits, kind = 32, 2
		default:
			s.unsupported("sse instruction " + in.String())
			return
		}
		over := cnt >= uint64(bits) // hardware does not mask the count: logical shifts give 0, arithmetic ones the sign
		c := uint(cnt & 63)
		s.xmm[d] = lanes(s.xmm[d], [2]uint64{}, bits, func(x, _ uint64) uint64 {
			var r uint64
			switch kind {
			case 0:
				r = x << c
				if over {
					r = 0
				}
			case 1:
				r = x >> c
				if over {
					r = 0
				}
			default:
				sx := sextLane(x, bits)
				r = uint64(int64(sx) >> c)
				if over {
					r = uint64(int64(sx) >> 63)
				}
			}
			return r
		})
	case xmmRmRImm:
		imm := uint(in.u2)
		switch op {
		case sseOpcodePextrb, sseOpcodePextrw, sseOpcodePextrd, sseOpcodePextrq: // op1 xmm -> op2 gpr, zero-extended
			v := s.xmm[xi(in.op1.reg())]
			var bits uint
			switch op {
			case sseOpcodePextrb:
				bits = 8
			case sseOpcodePextrw:
				bits = 16
			case sseOpcodePextrd:
				bits = 32
			default:
				bits = 64
			}
			per := 64 / bits
			lane := imm % (2 * per)
			x := v[lane/per] >> ((lane % per) * bits)
			if bits < 64 {
				x &= uint64(1)<<bits - 1
			}
			s.setReg(in.op2.reg(), x, true)
		case sseOpcodePinsrb, sseOpcodePinsrw, sseOpcodePinsrd, sseOpcodePinsrq: // op1 gpr/mem -> lane of op2 xmm
			var bits uint
			switch op {
			case sseOpcodePinsrb:
				bits = 8
			case sseOpcodePinsrw:
				bits = 16
			case sseOpcodePinsrd:
				bits = 32
			default:
				bits = 64
			}
			var x uint64
			if in.op1.kind == operandKindMem {
				x = s.loadMem(s.addr(in.op1.addressMode()), uint64(bits/8))
			} else {
				x = s.reg(in.op1.reg())
			}
			d := xi(in.op2.reg())
			per := 64 / bits
			lane := imm % (2 * per)
			sh := (lane % per) * bits
			if bits == 64 {
				s.xmm[d][lane] = x
			} else {
				mask := (uint64(1)<<bits - 1) << sh
				s.xmm[d][lane/per] = s.xmm[d][lane/per]&^mask | (x<<sh)&mask
			}
		case sseOpcodePshufd: // dst dword i = src dword imm[2i+1:2i]
			src := s.xmmSrc(&in.op1)
			dw := func(k uint) uint64 { return (src[k/2] >> ((k % 2) * 32)) & 0xffffffff }
			d := xi(in.op2.reg())
			s.xmm[d] = [2]uint64{dw(imm&3) | dw((imm>>2)&3)<<32, dw((imm>>4)&3) | dw((imm>>6)&3)<<32}
		case sseOpcodeInsertps: // dst dword imm[5:4] = src dword imm[7:6] (register) / the m32 (memory); then zero mask imm[3:0]
			d := xi(in.op2.reg())
			var x uint64
			if in.op1.kind == operandKindMem {
				x = s.loadMem(s.addr(in.op1.addressMode()), 4)
			} else {
				src := s.xmm[xi(in.op1.reg())]
				k := (imm >> 6) & 3
				x = (src[k/2] >> ((k % 2) * 32)) & 0xffffffff
			}
			k := (imm >> 4) & 3
			sh := (k % 2) * 32
			v := s.xmm[d]
			v[k/2] = v[k/2]&^(uint64(0xffffffff)<<sh) | x<<sh
			for z := uint(0); z < 4; z++ {
				if imm&(1<<z) != 0 {
					v[z/2] &^= uint64(0xffffffff) << ((z % 2) * 32)
				}
			}
			s.xmm[d] = v
		default:
			s.unsupported("sse instruction " + in.String())
		}
	}
}

// xmmMove: the data-movement subset of the SSE instructions (loads, stores, register moves, gpr<->xmm). Arithmetic on
// XMM registers is not modelled (programs that need it are reported as unsupported).
func (s *mState) xmmMove(in *instruction) {
	op := sseOpcode(in.u1)
	var width uint64
	switch op {
	case sseOpcodeMovss, sseOpcodeMovd:
		width = 4
	case sseOpcodeMovsd, sseOpcodeMovq:
		width = 8
	case sseOpcodeMovdqu, sseOpcodeMovdqa, sseOpcodeMovaps, sseOpcodeMovapd, sseOpcodeMovups, sseOpcodeMovupd:
		width = 16
	default:
		s.unsupported("sse instruction " + in.String())
		return
	}
	switch in.kind {
	case xmmUnaryRmR: // op1 (xmm or mem) -> op2 (xmm)
		d := xi(in.op2.reg())
		if d < 0 || d >= 16 {
			s.unsupported("xmm destination")
			return
		}
		if in.op1.kind == operandKindMem {
			a := s.addr(in.op1.addressMode())
			switch width {
			case 16:
				s.xmm[d] = [2]uint64{s.loadMem(a, 8), s.loadMem(a+8, 8)}
			default:
				s.xmm[d] = [2]uint64{s.loadMem(a, width), 0} // scalar loads zero the rest of the register
			}
		} else {
			src := s.xmm[xi(in.op1.reg())]
			switch width {
			case 16:
				s.xmm[d] = src
			case 8:
				s.xmm[d][0] = src[0] // movsd xmm, xmm merges the low quadword
			default:
				s.xmm[d][0] = s.xmm[d][0]&^0xffffffff | src[0]&0xffffffff
			}
		}
	case xmmMovRM: // op1 (xmm) -> op2 (mem)
		a := s.addr(in.op2.addressMode())
		src := s.xmm[xi(in.op1.reg())]
		if width == 16 {
			s.storeMem(a, 8, src[0])
			s.storeMem(a+8, 8, src[1])
		} else {
			s.storeMem(a, width, src[0]&wmask(width))
		}
	case gprToXmm: // movd/movq gpr or mem -> xmm
		var v uint64
		if in.op1.kind == operandKindMem {
			v = s.loadMem(s.addr(in.op1.addressMode()), width)
		} else {
			v = s.reg(in.op1.reg()) & wmask(width)
		}
		s.xmm[xi(in.op2.reg())] = [2]uint64{v, 0}
	case xmmToGpr: // movd/movq xmm -> gpr
		s.setReg(in.op2.reg(), s.xmm[xi(in.op1.reg())][0]&wmask(width), true)
	}
}

func regInfoArg(i int) regalloc.VReg { return regInfo.RealRegToVReg[intArgResultRegs[i]] }

// mCall sets up the registers/stack for local function fi per its ABI, runs it and collects the results.
func mCall(w *frontend.VWorld, funcs []*mFunc, fi int, args []uint64) (res []uint64, outcome int, s *mState) {
	s = &mState{w: w, funcs: funcs, stack: map[uint64]mStackEnt{}}
	s.gpr[ri(rspVReg)] = mStackTop - 4096
	f := funcs[fi]
	all := append([]uint64{frontend.VExecCtxBase, frontend.VModCtxBase}, args...)
	for i := range f.abi.Args {
		a := &f.abi.Args[i]
		if a.Type == ssa.TypeV128 {
			s.unsupported("vector parameter")
			return nil, mOutUnsupported, s
		}
		if a.Kind == backend.ABIArgKindReg {
			if a.Type == ssa.TypeF32 || a.Type == ssa.TypeF64 {
				s.xmm[xi(a.Reg)] = [2]uint64{all[i], 0}
			} else {
				s.setReg(a.Reg, all[i], true)
			}
		} else {
			// stack arguments sit above the return address
			s.stackStore(s.gpr[ri(rspVReg)]+uint64(a.Offset), 8, all[i])
		}
	}
	outcome = s.run(fi)
	if outcome != mOutReturn {
		return nil, outcome, s
	}
	for i := range f.abi.Rets {
		r := &f.abi.Rets[i]
		if r.Kind != backend.ABIArgKindReg || r.Type == ssa.TypeV128 {
			s.unsupported("stack or vector result")
			return nil, mOutUnsupported, s
		}
		var v uint64
		switch r.Type {
		case ssa.TypeF32:
			v = s.xmm[xi(r.Reg)][0] & 0xffffffff
		case ssa.TypeF64:
			v = s.xmm[xi(r.Reg)][0]
		case ssa.TypeI32:
			v = uint64(uint32(s.reg(r.Reg)))
		default:
			v = s.reg(r.Reg)
		}
		res = append(res, v)
	}
	return res, mOutReturn, s
}

// vCompareMachine: final amd64 machine instructions of the real back end vs the real interpreter, all inputs.
func vCompareMachine(set string, i int) {
	bin, params, _, mem, globals, _, _ := frontend.VProgram(set, i)
	w, err := frontend.VCompile(bin)
	verifrt.Assert(err == nil, "front end accepts the program")
	if err != nil {
		return
	}
	funcs := mCompile(w)
	verifrt.Assert(funcs != nil, "back end compiles the program")
	if funcs == nil {
		return
	}
	var memI []byte
	if mem {
		pages := verifrt.U32("pages")
		verifrt.Assume(pages <= 65536)
		if set == "T6m" {
			verifrt.Assume(pages <= 65535) // the 4 GiB case is the known finding reported by VerifC02_SSA_Single / VerifC02_L2_Single
		}
		if set == "T6" {
			verifrt.Assume(pages <= 2) // the SIMD family is about lanes, not about memory sizes (those are C02's)
		}
		size := uint64(pages) << 16
		memI = verifrt.Bytes("mem", size)
		w.SetMem(verifrt.Bytes("mem", size), 65536)
	}
	names := []string{"a0", "a1", "a2", "a3", "a4"}
	args := make([]uint64, len(params))
	for k, t := range params {
		v := verifrt.U64(names[k])
		if t == interpreter.VI32 || t == interpreter.VF32 {
			v = uint64(uint32(v))
		}
		args[k] = v
	}
	if lm := frontend.VProgramLoopMax(set, i); lm != 0 {
		n := uint32(args[0])
		verifrt.Assume(n >= 1 && n <= lm)
	}
	resI, trapI, finalI, globI, ok := interpreter.VerifInterpRun(bin, "f", memI, 65536, args)
	verifrt.Assert(ok, "interpreter accepts the program")
	if !ok {
		return
	}
	resM, outcome, st := mCall(w, funcs, 0, args)
	if outcome == mOutUnsupported || st.unsupp != "" || w.Unsupported() != "" {
		verifrt.Note("unsupported: " + st.unsupp + w.Unsupported())
		verifrt.Assert(false, "the machine-level evaluator models every instruction of this program")
		return
	}
	trapM := interpreter.VTrapNone
	if outcome == mOutTrap {
		trapM = frontend.VTrapKind(wazevoapi.ExitCode(st.exitCode))
	}
	verifrt.Assert(trapM == trapI, "machine code and interpreter agree on the outcome kind (return or which trap)")
	if trapM == interpreter.VTrapNone && trapI == interpreter.VTrapNone {
		verifrt.Assert(len(resM) == len(resI), "same number of results")
		for k := range resI {
			if k < len(resM) {
				verifrt.Assert(resM[k] == resI[k], "machine code and interpreter agree on every result, bit for bit")
			}
		}
	}
	for g := 0; g < globals; g++ {
		verifrt.Assert(w.Global(g) == globI[g], "machine code and interpreter agree on the final globals")
	}
	if mem {
		verifrt.Assert(len(w.Mem()) == len(finalI), "machine code and interpreter agree on the final memory size")
		probe := verifrt.U64("probe")
		if probe < uint64(len(finalI)) && probe < uint64(len(w.Mem())) {
			verifrt.Assert(w.Mem()[probe] == finalI[probe], "machine code and interpreter agree on the final memory contents")
		}
	}
	verifrt.Cover("compared")
}

// VerifC01_L2_T1: every integer program of family T1 at the level of the back end's final machine instructions.
//verif:opts split=prog:71
func VerifC01_L2_T1() {
	_, _, _, _, _, _, n := frontend.VProgram("T1", 0)
	vCompareMachine("T1", verifrt.Choose("prog", n))
}

// VerifC01_L2_T1c: constant-operand programs at the level of the final machine instructions (immediate operands,
// strength reduction, address-mode folding of constants).
//verif:opts split=part:8
func VerifC01_L2_T1c() {
	_, _, _, _, _, _, total := frontend.VProgram("T1c", 0)
	part := verifrt.Choose("part", 8)
	n := (total + 7) / 8
	i := part*n + verifrt.Choose("prog", n)
	if i >= total {
		verifrt.Assume(false)
	}
	vCompareMachine("T1c", i)
}

// VerifC01_L2_T3: control flow (if/else, br_if, loops with loop-carried values that are shifted, swapped and rotated on the
// back edge, globals, calls, multi-value) at the level of the final machine instructions: block-argument moves, register
// allocation across edges, spills around calls.
//verif:opts split=prog:14
func VerifC01_L2_T3() {
	_, _, _, _, _, _, n := frontend.VProgram("T3", 0)
	vCompareMachine("T3", verifrt.Choose("prog", n))
}

// VerifC05_L2_SIMD: a subset of the v128 instructions (bitwise, integer add/sub, shifts with run-time and constant counts
// incl. counts at and beyond the lane width, lane insert/extract incl. a scalar fused from a load) compiled by the real
// front end and amd64 back end; the machine-level evaluator (SSE subset) against the interpreter for all operand values.
// Vectors are built from and returned as pairs of i64.
//verif:opts split=part:8 obl-timeout=240000
func VerifC05_L2_SIMD() { vCompareMachine("T6", vFamilyPart("T6", 8)) }

func vFamilyPart(set string, parts int) int {
	_, _, _, _, _, _, total := frontend.VProgram(set, 0)
	part := verifrt.Choose("part", parts)
	n := (total + parts - 1) / parts
	i := part*n + verifrt.Choose("prog", n)
	if i >= total {
		verifrt.Assume(false)
	}
	return i
}

// VerifC02_L2_Single: every scalar load/store kind x boundary offsets at the level of the final machine instructions:
// every dereference of the compiled code is an obligation (inside the current linear memory or its own contexts/stack).
//verif:opts split=part:12 obl-timeout=240000 wall=1500
func VerifC02_L2_Single() { vCompareMachine("T2s", vFamilyPart("T2s", 12)) }

// VerifC02_L2_LaneAccess: the v128 full-width and lane loads/stores (and scalars fused from loads into lane inserts) at the level of the
// final machine instructions, for every memory size below 4 GiB: the checked extent is as wide as the access.
//verif:opts split=part:8 obl-timeout=240000 wall=1500
func VerifC02_L2_LaneAccess() { vCompareMachine("T6m", vFamilyPart("T6m", 8)) }

// VerifC02_L2_Reuse: the reuse shapes (same base value re-addressed, across calls and memory.grow, constant bases folded
// into address modes) at the level of the final machine instructions.
//verif:opts split=part:16 obl-timeout=240000 wall=1500
func VerifC02_L2_Reuse() { vCompareMachine("T2r", vFamilyPart("T2r", 16)) }

// VerifC05_L2_Ops / VerifC05_L2_Const: the integer instructions (operands from parameters / a constant operand) at the
// level of the final machine instructions.
//verif:opts split=prog:71
func VerifC05_L2_Ops() {
	_, _, _, _, _, _, n := frontend.VProgram("T1", 0)
	vCompareMachine("T1", verifrt.Choose("prog", n))
}

//verif:opts split=part:8
func VerifC05_L2_Const() { vCompareMachine("T1c", vFamilyPart("T1c", 8)) }

// VerifC08_L2_GoCallTrampoline: the machine code of the guest->host trampoline (the real CompileGoFunctionTrampoline), for
// signatures with register- and stack-passed parameters of every type: at the exit to Go the []uint64 the host function
// receives holds exactly the guest's arguments, and after the host wrote its results the trampoline returns exactly those
// results in the result registers.
func VerifC08_L2_GoCallTrampoline() {
	i32t, i64t, f32t, f64t := ssa.TypeI32, ssa.TypeI64, ssa.TypeF32, ssa.TypeF64
	var ps, rs []ssa.Type
	switch verifrt.Choose("sig", 6) {
	case 0:
		for i := 0; i < 9; i++ {
			ps = append(ps, i64t)
		}
		rs = []ssa.Type{i64t}
	case 1:
		for i := 0; i < 9; i++ {
			ps = append(ps, i32t)
		}
		rs = []ssa.Type{i32t}
	case 2:
		for i := 0; i < 9; i++ {
			ps = append(ps, f64t)
		}
		rs = []ssa.Type{f64t}
	case 3:
		for i := 0; i < 9; i++ {
			ps = append(ps, f32t)
		}
		rs = []ssa.Type{f32t}
	case 4:
		for i := 0; i < 3; i++ {
			ps = append(ps, i64t, f64t, i32t, f32t)
		}
		rs = []ssa.Type{i64t, f64t}
	case 5:
		ps = []ssa.Type{i32t, i64t}
		rs = []ssa.Type{i32t, f32t, i64t}
	}
	needModCtx := verifrt.Choose("modctx", 2) == 1
	sig := &ssa.Signature{ID: 1, Params: append([]ssa.Type{i64t, i64t}, ps...), Results: rs}
	if !needModCtx {
		sig.Params = append([]ssa.Type{i64t}, ps...)
	}
	m := NewBackend().(*machine)
	backend.NewCompiler(context.Background(), m, ssa.NewBuilder())
	exitCode := wazevoapi.ExitCodeCallGoModuleFunctionWithIndex(5, false)
	if !needModCtx {
		exitCode = wazevoapi.ExitCodeCallGoFunctionWithIndex(5, false)
	}
	code := m.CompileGoFunctionTrampoline(exitCode, sig, needModCtx)
	verifrt.Assert(len(code) > 0, "trampoline compiled")
	f := &mFunc{m: m, labels: map[label]*instruction{}, abi: m.currentABI}
	for l := label(0); l < m.nextLabel; l++ {
		if pos := m.labelPositionPool.Get(int(l)); pos != nil && pos.begin != nil {
			f.labels[l] = pos.begin
		}
	}
	for in := m.rootInstr; in != nil; in = in.next {
		if in.kind == nop0 && in.nop0Label() != 0 {
			f.labels[in.nop0Label()] = in
		}
	}
	bin, _, _, _, _, _, _ := frontend.VProgram("T1", 0)
	w, _ := frontend.VCompile(bin) // only the context model is used
	s := &mState{w: w, funcs: nil, stack: map[uint64]mStackEnt{}}
	s.gpr[ri(rspVReg)] = mStackTop - 4096
	// arguments per the ABI
	names := []string{"p0", "p1", "p2", "p3", "p4", "p5", "p6", "p7", "p8", "p9", "p10", "p11"}
	ctxs := 1
	if needModCtx {
		ctxs = 2
	}
	vals := make([]uint64, len(ps))
	for i := range f.abi.Args {
		a := &f.abi.Args[i]
		var v uint64
		switch {
		case i == 0:
			v = frontend.VExecCtxBase
		case i == 1 && needModCtx:
			v = frontend.VModCtxBase
		default:
			v = verifrt.U64(names[i-ctxs])
			if a.Type == i32t || a.Type == f32t {
				v = uint64(uint32(v))
			}
			vals[i-ctxs] = v
		}
		if a.Kind == backend.ABIArgKindReg {
			if a.Type == f32t || a.Type == f64t {
				s.xmm[xi(a.Reg)] = [2]uint64{v, 0}
			} else {
				s.setReg(a.Reg, v, true)
			}
		} else {
			s.stackStore(s.gpr[ri(rspVReg)]+uint64(a.Offset), 8, v)
		}
	}
	s.push(mRetDone)
	out := s.runFrom(f, m.rootInstr)
	if s.unsupp != "" || w.Unsupported() != "" {
		verifrt.Assert(false, "the machine-level evaluator models every instruction of the trampoline")
		return
	}
	verifrt.Assert(out == mOutTrap && s.exitCode == uint64(exitCode), "the trampoline exits to Go with the call's exit code")
	if out != mOutTrap {
		return
	}
	slice := s.gpr[ri(rspVReg)] + 8 // above the pushed slice size
	for k, t := range ps {
		width := uint64(8)
		if t == i32t || t == f32t {
			width = 4
		}
		verifrt.Assert(s.stackLoad(slice+8*uint64(k), width) == vals[k], "the host function's stack holds exactly the guest's arguments, in order")
	}
	// the host writes its results
	rnames := []string{"r0", "r1", "r2"}
	res := make([]uint64, len(rs))
	for j, t := range rs {
		res[j] = verifrt.U64(rnames[j])
		if t == i32t || t == f32t {
			res[j] = uint64(uint32(res[j]))
		}
		s.stackStore(slice+8*uint64(j), 8, res[j])
	}
	out = s.runFrom(f, s.stoppedAt.next)
	if s.unsupp != "" || w.Unsupported() != "" {
		verifrt.Assert(false, "the machine-level evaluator models every instruction of the trampoline")
		return
	}
	verifrt.Assert(out == mOutReturn, "the trampoline returns to the guest")
	for j := range f.abi.Rets {
		r := &f.abi.Rets[j]
		if r.Kind != backend.ABIArgKindReg {
			continue
		}
		var got uint64
		switch r.Type {
		case f32t:
			got = s.xmm[xi(r.Reg)][0] & 0xffffffff
		case f64t:
			got = s.xmm[xi(r.Reg)][0]
		case i32t:
			got = uint64(uint32(s.reg(r.Reg)))
		default:
			got = s.reg(r.Reg)
		}
		verifrt.Assert(got == res[j], "the guest receives exactly the host's results")
	}
	verifrt.Cover("trampoline")
}

// VerifC08_L2_EntryPreamble: the machine code of the Go->guest entry preamble (the real compileEntryPreamble) for signatures
// with register- and stack-passed parameters and results of every type: at the call of the guest function every argument
// sits where the calling convention puts it (register or stack slot, full width) with exactly the value Go placed in the
// parameter slice, and after the callee returned, the result slice holds exactly the callee's results; the original stack
// and frame pointers are restored.
func VerifC08_L2_EntryPreamble() {
	i32t, i64t, f32t, f64t := ssa.TypeI32, ssa.TypeI64, ssa.TypeF32, ssa.TypeF64
	var ps, rs []ssa.Type
	switch verifrt.Choose("sig", 7) {
	case 0:
		for i := 0; i < 9; i++ {
			ps = append(ps, i64t)
		}
		rs = []ssa.Type{i64t}
	case 1:
		for i := 0; i < 9; i++ {
			ps = append(ps, i32t)
		}
		rs = []ssa.Type{i32t}
	case 2:
		for i := 0; i < 10; i++ {
			ps = append(ps, f64t)
		}
		rs = []ssa.Type{f64t}
	case 3:
		for i := 0; i < 10; i++ {
			ps = append(ps, f32t)
		}
		rs = []ssa.Type{f32t}
	case 4:
		for i := 0; i < 5; i++ {
			ps = append(ps, i64t, f64t, i32t, f32t)
		}
		rs = []ssa.Type{i64t, f64t}
	case 5:
		ps = []ssa.Type{i32t, i64t}
		for i := 0; i < 5; i++ {
			rs = append(rs, i32t, f32t, i64t, f64t) // results beyond the registers come back on the stack
		}
	case 6:
		rs = []ssa.Type{f32t}
	}
	sig := &ssa.Signature{ID: 1, Params: append([]ssa.Type{i64t, i64t}, ps...), Results: rs}
	m := NewBackend().(*machine)
	backend.NewCompiler(context.Background(), m, ssa.NewBuilder())
	root := m.compileEntryPreamble(sig)
	abi := backend.FunctionABI{}
	abi.Init(sig, intArgResultRegs, floatArgResultRegs)
	f := &mFunc{m: m, labels: map[label]*instruction{}, abi: &abi}
	bin, _, _, _, _, _, _ := frontend.VProgram("T1", 0)
	w, _ := frontend.VCompile(bin) // only the context model is used
	const callee = uint64(0x7ffc_0000_1000)
	s := &mState{w: w, stack: map[uint64]mStackEnt{}, stopAtCall: callee, ectx: map[uint64]uint64{}}
	goRSP, goRBP := mStackTop-0x100, mStackTop-0x80
	slice := mStackTop - 0x4000      // the []uint64 Go passes (parameters in, results out)
	guestStack := mStackTop - 0x8000 // top of the Go-allocated guest stack (16-byte aligned)
	s.gpr[ri(rspVReg)], s.gpr[ri(rbpVReg)] = goRSP, goRBP
	s.setReg(raxVReg, frontend.VExecCtxBase, true)
	s.setReg(rbxVReg, frontend.VModCtxBase, true)
	s.setReg(paramResultSlicePtr, slice, true)
	s.setReg(goAllocatedStackPtr, guestStack, true)
	s.setReg(functionExecutable, callee, true)
	n := len(ps)
	if len(rs) > n {
		n = len(rs)
	}
	names := []string{"p0", "p1", "p2", "p3", "p4", "p5", "p6", "p7", "p8", "p9", "p10", "p11", "p12", "p13", "p14", "p15", "p16", "p17", "p18", "p19"}
	vals := make([]uint64, n)
	for k := 0; k < n; k++ {
		v := verifrt.U64(names[k]) // Go leaves whole 64-bit slots; 32-bit values are in the low half
		vals[k] = v
		s.stackStore(slice+8*uint64(k), 8, v)
	}
	s.push(mRetDone)
	out := s.runFrom(f, root)
	if s.unsupp != "" || w.Unsupported() != "" {
		verifrt.Note("unsupported: " + s.unsupp + w.Unsupported())
		verifrt.Assert(false, "the machine-level evaluator models every instruction of the entry preamble")
		return
	}
	verifrt.Assert(out == mOutCall, "the preamble calls the guest function")
	if out != mOutCall {
		return
	}
	rsp := s.gpr[ri(rspVReg)]
	verifrt.Assert(rsp%16 == 0 && guestStack-rsp < 0x1000, "the guest function is entered on the Go-allocated stack, 16-byte aligned")
	verifrt.Assert(s.reg(raxVReg) == frontend.VExecCtxBase && s.reg(rbxVReg) == frontend.VModCtxBase, "execution and module context reach the guest function")
	for i := 2; i < len(abi.Args); i++ {
		a := &abi.Args[i]
		want := vals[i-2]
		var got uint64
		if a.Kind == backend.ABIArgKindReg {
			switch a.Type {
			case f32t:
				got, want = s.xmm[xi(a.Reg)][0]&0xffffffff, want&0xffffffff
			case f64t:
				got = s.xmm[xi(a.Reg)][0]
			case i32t:
				got, want = s.reg(a.Reg)&0xffffffff, want&0xffffffff
			default:
				got = s.reg(a.Reg)
			}
		} else {
			width := uint64(8)
			if a.Type == i32t || a.Type == f32t {
				width, want = 4, want&0xffffffff
			}
			got = s.stackLoad(rsp+uint64(a.Offset), width)
		}
		verifrt.Assert(got == want, "every parameter reaches the guest function in its register or stack slot with exactly the value Go passed")
	}
	// the callee returns its results per the calling convention
	rnames := []string{"r0", "r1", "r2", "r3", "r4", "r5", "r6", "r7", "r8", "r9", "r10", "r11", "r12", "r13", "r14", "r15", "r16", "r17", "r18", "r19"}
	res := make([]uint64, len(rs))
	for j := range abi.Rets {
		r := &abi.Rets[j]
		v := verifrt.U64(rnames[j])
		if r.Type == i32t || r.Type == f32t {
			v &= 0xffffffff
		}
		res[j] = v
		if r.Kind == backend.ABIArgKindReg {
			if r.Type == f32t || r.Type == f64t {
				s.xmm[xi(r.Reg)] = [2]uint64{v, 0}
			} else {
				s.setReg(r.Reg, v, true)
			}
		} else {
			width := uint64(8)
			if r.Type == i32t || r.Type == f32t {
				width = 4
			}
			s.stackStore(rsp+uint64(abi.ArgStackSize)+uint64(r.Offset), width, v)
		}
	}
	out = s.runFrom(f, s.stoppedAt.next)
	if s.unsupp != "" || w.Unsupported() != "" {
		verifrt.Note("unsupported: " + s.unsupp + w.Unsupported())
		verifrt.Assert(false, "the machine-level evaluator models every instruction of the entry preamble")
		return
	}
	verifrt.Assert(out == mOutReturn, "the preamble returns to Go")
	for j, t := range rs {
		width := uint64(8)
		if t == i32t || t == f32t {
			width = 4
		}
		verifrt.Assert(s.stackLoad(slice+8*uint64(j), width) == res[j], "the result slice holds exactly the guest function's results")
	}
	verifrt.Assert(s.gpr[ri(rspVReg)] == goRSP && s.gpr[ri(rbpVReg)] == goRBP, "Go's stack and frame pointers are restored")
	verifrt.Cover("preamble")
}

//go:build verif

package frontend

import (
	"github.com/tetratelabs/wazero/internal/engine/interpreter"
	"github.com/tetratelabs/wazero/internal/verifrt"
)

// the ways a function can return a value to its caller; x is the parameter
var vExits = [][]byte{
	cat(i32const(7)),                                                    // fall through the end
	cat(i32const(7), []byte{0x0f}),                                      // return
	cat(i32const(7), []byte{0x0c, 0x00}),                                // br to the function label
	cat(i32const(7), lg(0), []byte{0x0d, 0x00, 0x1a}, i32const(8)),      // br_if to the function label, else 8
	cat(i32const(7), lg(0), []byte{0x0e, 0x00, 0x00}),                   // br_table (empty vector, default = function label)
	cat(i32const(7), lg(0), []byte{0x0e, 0x01, 0x00, 0x00}),             // br_table whose targets are the function label
	cat([]byte{0x02, 0x7f}, i32const(7), lg(0), []byte{0x0e, 0x01, 0x00, 0x01, 0x0b}), // br_table: inner block or the function label
	cat(lg(0), []byte{0x45, 0x04, 0x7f}, i32const(7), []byte{0x05}, i32const(8), []byte{0x0b}), // if/else value
}

// VerifC20_SSA_Events: with listeners compiled in, the optimised SSA of f -> g (g leaving through each kind of exit) emits
// exactly the events the interpreter emits: one before per call with the parameters, one after per return with the
// results, properly nested - for all parameter values.
//verif:opts split=exit:8
func VerifC20_SSA_Events() {
	exit := vExits[verifrt.Choose("exit", len(vExits))]
	spec := &interpreter.VerifModuleSpec{Funcs: []interpreter.VerifFuncSpec{
		{Params: []byte{i32}, Results: []byte{i32}, Body: cat(lg(0), []byte{0x10, 0x01}), Export: "f"},
		{Params: []byte{i32}, Results: []byte{i32}, Body: exit},
	}}
	bin := interpreter.VerifEncode(spec)
	w, err := vCompile(bin, false, true)
	verifrt.Assert(err == nil, "by-construction valid module is accepted by the compiler front end")
	if err != nil {
		return
	}
	x := uint64(verifrt.U32("x"))
	resI, trapI, evI, ok := interpreter.VerifInterpEvents(bin, "f", 2, []uint64{x})
	verifrt.Assert(ok && trapI == interpreter.VTrapNone, "interpreter runs the program")
	if !ok {
		return
	}
	resC, outcome := w.call(0, []vVal{{lo: x}})
	if outcome == vOutUnsupported || w.unsupp != "" {
		verifrt.Assert(false, "the reference evaluator models every SSA construct of this program family")
		return
	}
	verifrt.Assert(outcome == vOutReturn && len(resC) == 1 && len(resI) == 1 && resC[0].lo == resI[0], "listeners do not change the result; compiler and interpreter agree")
	verifrt.Assert(len(w.events) == len(evI), "compiled code emits as many listener events as the interpreter (one before and one after per call)")
	for i := range evI {
		if i >= len(w.events) {
			break
		}
		c, e := w.events[i], evI[i]
		verifrt.Assert(c.Before == (e.Kind == 1) && c.Fn == e.Fn, "same event kind for the same function, in the same order")
		same := len(c.Vals) == len(e.Vals)
		for j := 0; same && j < len(e.Vals); j++ {
			same = c.Vals[j] == e.Vals[j]
		}
		verifrt.Assert(same, "events carry the actual parameters / results")
	}
	verifrt.Cover("events")
}

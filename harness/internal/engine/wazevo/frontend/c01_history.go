//go:build verif

package frontend

import "github.com/tetratelabs/wazero/internal/verifrt"

// Family H: control-flow + memory shapes of type (i32 addr, i32 sel) -> i32 over a memory of 1..2 pages, used in PAIRS:
// the first member is compiled, then the second by the same front-end compiler and SSA builder (pools, per-block tables and
// caches are reused between the functions of a module), and the second is compared with the interpreter.
func vHistoryFamily() []vProgram {
	ld := func(op byte, off uint32) []byte { return cat(lg(0), []byte{op}, memarg(off)) }
	blk, loop, end := []byte{0x02, 0x40}, []byte{0x03, 0x40}, []byte{0x0b}
	brif := func(l byte) []byte { return cat(lg(1), []byte{0x0d, l}) }
	drop := []byte{0x1a}
	mk := func(name string, body []byte) vProgram {
		return vProgram{name: name, mem: true, memMax: 2, params: []byte{i32, i32}, results: []byte{i32}, body: body}
	}
	return []vProgram{
		// nested blocks left by br_if, a wide access and a memory.grow on the fall-through path
		mk("blocks-brif-load-grow", cat(blk, blk, blk, brif(0), brif(1), brif(2), end, ld(0x29, 0), drop, i32const(0), []byte{0x40, 0x00}, drop, end, end, i32const(0))),
		// br_table, an empty loop and unreachable in between, access after the targeted block
		mk("brtable-loop-load", cat(blk, blk, lg(1), []byte{0x0e, 0x01, 0x01, 0x00}, end, loop, end, []byte{0x00}, end, ld(0x28, 0))),
		// if/else with accesses of different width, access after the join
		mk("ifelse-loads", cat(lg(1), []byte{0x04, 0x7f}, ld(0x29, 0), []byte{0xa7}, []byte{0x05}, ld(0x2d, 3), end, ld(0x28, 4), []byte{0x6a})),
		// three-way br_table, each target followed by an access at another offset
		mk("brtable3-loads", cat(blk, blk, blk, lg(1), []byte{0x0e, 0x02, 0x00, 0x01, 0x02}, end, ld(0x2d, 7), drop, end, ld(0x2d, 1), drop, end, ld(0x28, 0))),
		// straight line: narrow far access, then wide near access
		mk("straight-loads", cat(ld(0x2d, 7), ld(0x28, 0), []byte{0x6a})),
		// empty loops and blocks only, then an access
		mk("loops-then-load", cat(loop, end, blk, loop, end, end, loop, end, ld(0x29, 0), []byte{0xa7})),
	}
}

// VerifC01_AfterAnotherFunction: the optimised SSA of a function does not depend on which function the same compiler
// compiled before it: for every ordered pair of family H, the second function compiled after the first - on one shared
// front-end compiler and SSA builder, as the engine compiles the functions of a module - agrees with the interpreter on
// outcome, results and memory for all arguments, memory sizes and contents.
//verif:opts split=pre:6 obl-timeout=240000 wall=1500
func VerifC01_AfterAnotherFunction() {
	fam := vHistoryFamily()
	pre := fam[verifrt.Choose("pre", len(fam))]
	p := fam[verifrt.Choose("prog", len(fam))]
	p.pre = &pre
	vCompare(&p)
}

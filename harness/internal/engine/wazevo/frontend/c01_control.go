//go:build verif

package frontend

import (
	"github.com/tetratelabs/wazero/internal/engine/interpreter"
	"github.com/tetratelabs/wazero/internal/verifrt"
)

// T3: structured control flow, locals, globals, calls, multi-value. Loops are bounded by construction (counted down from
// a parameter assumed <= 3).
var vT3 = []vProgram{
	// if/else returning a value
	{name: "if-else", params: []byte{i32, i32, i32}, results: []byte{i32}, body: cat(lg(0), []byte{0x04, 0x7f}, lg(1), []byte{0x05}, lg(2), []byte{0x0b})},
	// block with br_if carrying a value
	{name: "br_if-value", params: []byte{i32, i32}, results: []byte{i32}, body: cat([]byte{0x02, 0x7f}, lg(0), lg(1), []byte{0x0d, 0x00}, []byte{0x1a}, i32const(7), []byte{0x0b})},
	// br_table with three targets
	{name: "br_table", params: []byte{i32}, results: []byte{i32},
		body: cat([]byte{0x02, 0x40, 0x02, 0x40, 0x02, 0x40}, lg(0), []byte{0x0e, 0x02, 0x00, 0x01, 0x02, 0x0b}, i32const(10), []byte{0x0f, 0x0b}, i32const(20), []byte{0x0f, 0x0b}, i32const(30))},
	// loop: sum = n + (n-1) + ... while n != 0 (n <= 3), uses a local and local.tee
	{name: "loop-sum", params: []byte{i32}, locals: []byte{i32}, results: []byte{i32}, loopMax: 3,
		body: cat([]byte{0x03, 0x40}, lg(1), lg(0), []byte{0x6a, 0x21, 0x01}, lg(0), i32const(1), []byte{0x6b, 0x22, 0x00}, []byte{0x0d, 0x00, 0x0b}, lg(1))},
	// globals: g0 = g0 + x ; g1 = g0 * 2 ; return g1
	{name: "globals", globals: 2, params: []byte{i32}, results: []byte{i32},
		body: cat([]byte{0x23, 0x00}, lg(0), []byte{0x6a, 0x24, 0x00}, []byte{0x23, 0x00}, i32const(2), []byte{0x6c, 0x24, 0x01}, []byte{0x23, 0x01})},
	// direct call with multi-value result: f(x,y) = let (a,b) = g(x,y) in a - b where g swaps
	{name: "call-multivalue", params: []byte{i64, i64}, results: []byte{i64}, body: cat(lg(0), lg(1), []byte{0x10, 0x01, 0x7d}),
		extra: []interpreter.VerifFuncSpec{{Params: []byte{i64, i64}, Results: []byte{i64, i64}, Body: cat(lg(1), lg(0))}}},
	// trap inside a callee after a global was written: effects before the trap persist
	{name: "trap-after-effect", globals: 1, params: []byte{i32}, results: []byte{i32},
		body: cat(lg(0), []byte{0x24, 0x00}, lg(0), []byte{0x10, 0x01}),
		extra: []interpreter.VerifFuncSpec{{Params: []byte{i32}, Results: []byte{i32}, Body: cat(lg(0), []byte{0x45, 0x04, 0x40, 0x00, 0x0b}, i32const(100), lg(0), []byte{0x6d})}}},
	// select on a comparison of two computed values, nested blocks
	{name: "select-cmp", params: []byte{i32, i32}, results: []byte{i32}, body: cat(lg(0), lg(1), lg(0), lg(1), []byte{0x48, 0x1b})},
	// loop-carried parallel assignment on the back edge: prev = cur ; cur = const, prev read in the next iteration
	{name: "loop-shift-const", params: []byte{i32, i32}, locals: []byte{i32, i32, i32}, results: []byte{i32}, loopMax: 3,
		body: cat(lg(1), ls(3), []byte{0x03, 0x40}, lg(4), i32const(31), []byte{0x6c}, lg(2), []byte{0x6a}, ls(4), lg(3), ls(2), i32const(7), ls(3),
			vCountDown, []byte{0x0b}, lg(4), lg(2), []byte{0x6a}, lg(3), []byte{0x6a})},
	// swap of two loop-carried locals on every iteration (a cycle in the block-argument moves)
	{name: "loop-swap", params: []byte{i32, i32, i32}, locals: []byte{i32}, results: []byte{i32, i32}, loopMax: 3,
		body: cat([]byte{0x03, 0x40}, lg(1), ls(3), lg(2), ls(1), lg(3), ls(2), vCountDown, []byte{0x0b}, lg(1), lg(2))},
	// rotation of three loop-carried locals
	{name: "loop-rotate3", params: []byte{i32, i64, i64, i64}, locals: []byte{i64}, results: []byte{i64, i64, i64}, loopMax: 3,
		body: cat([]byte{0x03, 0x40}, lg(1), ls(4), lg(2), ls(1), lg(3), ls(2), lg(4), ls(3), vCountDown, []byte{0x0b}, lg(1), lg(2), lg(3))},
	// swap of two loop-carried f64 locals, an integer accumulator beside them
	{name: "loop-swap-f64", params: []byte{i32, f64, f64}, locals: []byte{f64, i32}, results: []byte{f64, f64, i32}, loopMax: 3,
		body: cat([]byte{0x03, 0x40}, lg(1), ls(3), lg(2), ls(1), lg(3), ls(2), lg(4), i32const(5), []byte{0x6a}, ls(4), vCountDown, []byte{0x0b}, lg(1), lg(2), lg(4))},
	// if without else that reassigns one of two locals from the other and a constant: both reach the join as block arguments
	{name: "if-join-shift", params: []byte{i32, i32, i32}, results: []byte{i32, i32},
		body: cat(lg(0), []byte{0x04, 0x40}, lg(2), ls(1), i32const(9), ls(2), []byte{0x0b}, lg(1), lg(2))},
	// unreachable guarded by a condition
	{name: "cond-unreachable", params: []byte{i32}, results: []byte{i32}, body: cat(lg(0), i32const(5), []byte{0x46, 0x04, 0x40, 0x00, 0x0b}, lg(0))},
}

// vCountDown: local0 = local0 - 1 ; br_if 0 (continue while non-zero)
var vCountDown = cat(lg(0), i32const(1), []byte{0x6b, 0x22, 0x00}, []byte{0x0d, 0x00})

func ls(i byte) []byte { return []byte{0x21, i} }

// VerifC01_T3: control-flow, locals, globals and call programs: optimised wazevo SSA == interpreter for all inputs.
//verif:opts split=prog:14
func VerifC01_T3() {
	p := vT3[verifrt.Choose("prog", len(vT3))]
	if p.loopMax != 0 {
		// bound the loop: evaluated in vCompare through parameter a0
		n := uint32(verifrt.U64("a0"))
		verifrt.Assume(n >= 1 && n <= p.loopMax)
	}
	vCompare(&p)
}

//go:build verif

package frontend

import "github.com/tetratelabs/wazero/internal/leb128"

// T6: a subset of the v128 instructions. Parameters: a_lo, a_hi, b_lo, b_hi (i64) and c (i32); vectors A and B are built
// with i64x2.splat + i64x2.replace_lane 1; the result vector is returned as its two i64 lanes. Local 5 is a v128.
var vT6 []vProgram

func simd(op uint32) []byte { return append([]byte{0xfd}, leb128.EncodeUint32(op)...) }

func vecA() []byte { return cat(lg(0), simd(0x12), lg(1), simd(0x1e), []byte{0x01}) }
func vecB() []byte { return cat(lg(2), simd(0x12), lg(3), simd(0x1e), []byte{0x01}) }

// ret2 stores the v128 on the stack into local 5 and returns its lanes.
func ret2() []byte {
	return cat([]byte{0x21, 0x05}, lg(5), simd(0x1d), []byte{0x00}, lg(5), simd(0x1d), []byte{0x01})
}

func init() {
	params := []byte{i64, i64, i64, i64, i32}
	add := func(name string, mem bool, body []byte) {
		vT6 = append(vT6, vProgram{name: name, mem: mem, params: params, locals: []byte{0x7b}, results: []byte{i64, i64}, body: cat(body, ret2())})
	}
	// bitwise and integer add/sub
	for _, op := range []uint32{0x4e, 0x4f, 0x50, 0x51, 0x6e, 0x71, 0x8e, 0x91, 0xae, 0xb1, 0xce, 0xd1} {
		add("v128.bin", false, cat(vecA(), vecB(), simd(op)))
	}
	// multiplication (comparisons and min/max are left out: the interpreter's lane loops branch per lane, 2^16 paths)
	for _, op := range []uint32{0x95, 0xb5} {
		add("v128.mul", false, cat(vecA(), vecB(), simd(op)))
	}
	// negation, splats
	for _, op := range []uint32{0x61, 0x81, 0xa1, 0xc1} {
		add("v128.neg", false, cat(vecA(), simd(op)))
	}
	for _, op := range []uint32{0x0f, 0x10, 0x11} {
		add("v128.splat", false, cat(lg(4), simd(op)))
	}
	add("v128.not", false, cat(vecA(), simd(0x4d)))
	add("v128.bitselect", false, cat(vecA(), vecB(), vecA(), simd(0x52)))
	// shifts: run-time count (any i32) and constant counts around the lane width
	type sh struct {
		op   uint32
		bits int32
	}
	for _, s := range []sh{{0x8b, 16}, {0x8c, 16}, {0x8d, 16}, {0xab, 32}, {0xac, 32}, {0xad, 32}, {0xcb, 64}, {0xcd, 64}} {
		add("shift-var", false, cat(vecA(), lg(4), simd(s.op)))
		for _, c := range []int32{0, 1, s.bits - 1, s.bits, s.bits + 1, -1} {
			add("shift-const", false, cat(vecA(), i32const(c), simd(s.op)))
		}
	}
	// lanes: replace with a parameter and with a value loaded from memory (a load the back end may fuse), extract
	for lane := byte(0); lane < 2; lane++ {
		add("i64x2.replace_lane", false, cat(vecA(), lg(2), simd(0x1e), []byte{lane}))
		add("f64x2.replace_lane", false, cat(vecA(), lg(2), []byte{0xbf}, simd(0x22), []byte{lane}))
		add("f64x2.replace_lane-load", true, cat(vecA(), lg(4), []byte{0x2b, 0x03, 0x00}, simd(0x22), []byte{lane}))
		add("i64x2.replace_lane-load", true, cat(vecA(), lg(4), []byte{0x29, 0x03, 0x00}, simd(0x1e), []byte{lane}))
	}
	// lane stores and loads (memory at parameter 4): the access is as wide as the lane
	type lm struct {
		op    uint32
		align byte
		last  byte
	}
	for _, k := range []lm{{0x58, 0, 15}, {0x59, 1, 7}, {0x5a, 2, 3}, {0x5b, 3, 1}} {
		for _, lane := range []byte{0, k.last} {
			add("v128.store_lane", true, cat(lg(4), vecA(), simd(k.op), []byte{k.align, 0x00, lane}, vecA()))
		}
	}
	for _, k := range []lm{{0x54, 0, 15}, {0x55, 1, 7}, {0x56, 2, 3}, {0x57, 3, 1}} {
		add("v128.load_lane", true, cat(lg(4), vecA(), simd(k.op), []byte{k.align, 0x00, k.last}))
	}
	// full-width accesses
	add("v128.load", true, cat(lg(4), simd(0x00), []byte{0x04, 0x00}))
	add("v128.store", true, cat(lg(4), vecA(), simd(0x0b), []byte{0x04, 0x00}, vecA()))
	add("v128.load-off", true, cat(lg(4), simd(0x00), []byte{0x00, 0x09}))
	for lane := byte(0); lane < 4; lane++ {
		add("i32x4.replace_lane", false, cat(vecA(), lg(4), simd(0x1c), []byte{lane}))
		add("f32x4.replace_lane", false, cat(vecA(), lg(4), []byte{0xbe}, simd(0x20), []byte{lane}))
		add("f32x4.replace_lane-load", true, cat(vecA(), lg(4), []byte{0x2a, 0x02, 0x00}, simd(0x20), []byte{lane}))
		// i32x4.extract_lane -> splat back (keeps the two-result shape)
		add("i32x4.extract_lane", false, cat(vecA(), simd(0x1b), []byte{lane}, simd(0x11)))
	}
	for _, lane := range []byte{0, 3, 7} {
		add("i16x8.extract_lane_s", false, cat(vecA(), simd(0x18), []byte{lane}, simd(0x11)))
		add("i16x8.extract_lane_u", false, cat(vecA(), simd(0x19), []byte{lane}, simd(0x11)))
		add("i16x8.replace_lane", false, cat(vecA(), lg(4), simd(0x1a), []byte{lane}))
	}
	for _, lane := range []byte{0, 9, 15} {
		add("i8x16.extract_lane_s", false, cat(vecA(), simd(0x15), []byte{lane}, simd(0x11)))
		add("i8x16.extract_lane_u", false, cat(vecA(), simd(0x16), []byte{lane}, simd(0x11)))
		add("i8x16.replace_lane", false, cat(vecA(), lg(4), simd(0x17), []byte{lane}))
	}
}

//go:build verif

package frontend

import (
	"github.com/tetratelabs/wazero/internal/engine/interpreter"
	"github.com/tetratelabs/wazero/internal/verifrt"
)

func gg(i byte) []byte { return []byte{0x23, i} }
func gs(i byte) []byte { return []byte{0x24, i} }

// VerifC01_ImportedGlobals: a module that imports mutable globals of another instance - two different ones, or ONE global
// under two import indexes (aliases) - reads and writes them in every short order: the optimised SSA of the compiler
// front end (which caches global values per index) and the interpreter agree on results and on the exporter's globals,
// for all values. Programs 6-8 also call an imported function of the exporter that changes its global g0 in between
// (a callee may change any mutable global, so nothing read before the call may be reused after it).
//verif:opts split=prog:9
func VerifC01_ImportedGlobals() {
	alias := verifrt.Choose("aliased", 2) == 1
	owners := []int{0, 1}
	if alias {
		owners = []int{0, 0}
	}
	var body []byte
	params, results := []byte{i32}, []byte{i32}
	bump := false
	switch verifrt.Choose("prog", 9) {
	case 0: // read 1 ; write 0 ; read 1
		body = cat(gg(1), []byte{0x1a}, lg(0), gs(0), gg(1))
	case 1: // write 0 ; read 1
		body = cat(lg(0), gs(0), gg(1))
	case 2: // read 0 ; write 1 ; read 0
		body = cat(gg(0), []byte{0x1a}, lg(0), gs(1), gg(0))
	case 3: // write 0 ; write 1 (x+1) ; read 0 ; read 1 ; sub
		body = cat(lg(0), gs(0), lg(0), i32const(1), []byte{0x6a}, gs(1), gg(0), gg(1), []byte{0x6b})
	case 4: // read both, add, write to 1, read 0
		body = cat(gg(0), gg(1), []byte{0x6a}, gs(1), gg(0))
	case 5: // in a branch: if x then write 0 end ; read 1
		body = cat(gg(1), []byte{0x1a}, lg(0), []byte{0x04, 0x40}, lg(0), gs(0), []byte{0x0b}, gg(1))
	case 6: // read 0 ; call bump ; read 0
		bump = true
		body = cat(gg(0), []byte{0x1a}, []byte{0x10, 0x00}, gg(0))
	case 7: // write 0 ; call bump ; read 0
		bump = true
		body = cat(lg(0), gs(0), []byte{0x10, 0x00}, gg(0))
	case 8: // read 1 ; call bump ; read 1 (changes when 1 is an alias of 0)
		bump = true
		body = cat(gg(1), []byte{0x1a}, []byte{0x10, 0x00}, gg(1))
	}
	var bin []byte
	if bump {
		bin = interpreter.VerifImportedGlobalsModuleWithBump(owners, params, results, body)
	} else {
		bin = interpreter.VerifImportedGlobalsModule(owners, params, results, body)
	}
	i0, i1 := verifrt.U32("g0"), verifrt.U32("g1")
	x := uint64(verifrt.U32("a0"))
	resI, trapI, g0I, g1I, ok := interpreter.VerifInterpRunWithGlobalsExporter(bin, i0, i1, []uint64{x})
	verifrt.Assert(ok && trapI == interpreter.VTrapNone, "interpreter accepts and runs the program")
	if !ok {
		return
	}
	w, err := vCompile(bin, false, false)
	verifrt.Assert(err == nil, "by-construction valid module is accepted by the compiler front end")
	if err != nil {
		return
	}
	w.extOwner = owners
	w.ext = []vVal{{lo: uint64(i0)}, {lo: uint64(i1)}}
	w.hostFx = func(uint32) { w.ext[0].lo = uint64(uint32(w.ext[0].lo) + 1) } // A.bump
	resC, outcome := w.call(0, []vVal{{lo: x}})
	if outcome == vOutUnsupported || w.unsupp != "" {
		verifrt.Note("unsupported: " + w.unsupp)
		verifrt.Assert(false, "the reference evaluator models every SSA construct of this program family")
		return
	}
	verifrt.Assert(outcome == vOutReturn && len(resC) == len(resI), "compiler and interpreter agree on the outcome")
	for i := range resI {
		if i < len(resC) {
			verifrt.Assert(uint64(uint32(resC[i].lo)) == resI[i], "compiler and interpreter agree on every result (globals read through any import index see writes made through any other)")
		}
	}
	verifrt.Assert(uint64(uint32(w.ext[0].lo)) == g0I && uint64(uint32(w.ext[1].lo)) == g1I, "compiler and interpreter agree on the exporter's globals afterwards")
	verifrt.Cover("compared")
}

//go:build verif

package frontend

import (
	"github.com/tetratelabs/wazero/internal/engine/interpreter"
	"github.com/tetratelabs/wazero/internal/verifrt"
)

func rep(b byte, n int) []byte {
	out := make([]byte, n)
	for i := range out {
		out[i] = b
	}
	return out
}

// vDead: instruction sequences that are valid in unreachable code (stack-polymorphic), chosen so that their immediates
// are easy to mis-skip: label vectors with a default, block types, LEB and fixed-width constants whose bytes look like
// `end`/`else`/`block` opcodes, memargs, prefixed opcodes, lane immediates.
var vDead = [][]byte{
	{0x41, 0x00, 0x0e, 0x02, 0x00, 0x01, 0x02},                               // br_table 0 1 default 2
	{0x41, 0x00, 0x0e, 0x01, 0x00, 0x03},                                     // br_table 0 default 3
	{0x41, 0x00, 0x0e, 0x00, 0x04},                                           // br_table default 4 (function label)
	{0x41, 0x00, 0x0e, 0x03, 0x02, 0x03, 0x02, 0x03},                         // br_table 2 3 2 default 3
	{0x41, 0x00, 0x0d, 0x02, 0x0c, 0x03},                                     // br_if 2 ; br 3
	{0x02, 0x7f, 0x41, 0x05, 0x0b, 0x1a, 0x03, 0x40, 0x0b},                   // block (result i32) i32.const 5 end drop ; loop end
	{0x41, 0x00, 0x04, 0x7f, 0x41, 0x0b, 0x05, 0x41, 0x05, 0x0b, 0x1a},       // if (result i32) const 11 else const 5 end drop
	{0x41, 0x0b, 0x1a, 0x41, 0x05, 0x1a, 0x42, 0x0b, 0x1a, 0x41, 0x8b, 0x96, 0xac, 0x00, 0x1a}, // constants whose LEB bytes are opcodes
	cat([]byte{0x43}, rep(0x0b, 4), []byte{0x1a, 0x44}, rep(0x0b, 8), []byte{0x1a}), // f32.const / f64.const made of 0x0b bytes
	{0x41, 0x00, 0x28, 0x02, 0x0b, 0x1a, 0x41, 0x00, 0x41, 0x00, 0x36, 0x02, 0x05}, // i32.load offset=11 ; i32.store offset=5
	{0x3f, 0x00, 0x1a, 0x41, 0x00, 0x40, 0x00, 0x1a},                         // memory.size ; memory.grow
	{0x41, 0x00, 0x41, 0x00, 0x41, 0x00, 0xfc, 0x0a, 0x00, 0x00, 0x41, 0x00, 0x41, 0x00, 0x41, 0x00, 0xfc, 0x0b, 0x00}, // memory.copy ; memory.fill
	{0x41, 0x00, 0x10, 0x00, 0x1a, 0x41, 0x00, 0x12, 0x00},                   // call 0 ; return_call 0
	{0x20, 0x00, 0x21, 0x00, 0x41, 0x0b, 0x22, 0x00, 0x1a},                   // local.get/set/tee
	{0x23, 0x00, 0x24, 0x00},                                                 // global.get ; global.set
	{0x41, 0x00, 0x41, 0x00, 0x41, 0x00, 0x1c, 0x01, 0x7f, 0x1a, 0x41, 0x00, 0x41, 0x00, 0x41, 0x00, 0x1b, 0x1a}, // typed select ; select
	{0xd0, 0x70, 0x1a, 0xd0, 0x70, 0xd1, 0x1a, 0xd2, 0x00, 0x1a},             // ref.null ; ref.is_null ; ref.func 0
	cat([]byte{0xfd, 0x0c}, rep(0x0b, 16), []byte{0x1a}),                     // v128.const of 0x0b bytes
	cat([]byte{0xfd, 0x0c}, rep(0x0b, 16), []byte{0xfd, 0x0c}, rep(0x05, 16), []byte{0xfd, 0x0d}, rep(0x0b, 16), []byte{0x1a}), // i8x16.shuffle
	cat([]byte{0x41, 0x00, 0xfd, 0x0c}, rep(0x02, 16), []byte{0xfd, 0x54, 0x00, 0x0b, 0x0b, 0x1a}), // v128.load8_lane offset=11 lane 11
	cat([]byte{0xfd, 0x0c}, rep(0x02, 16), []byte{0xfd, 0x15, 0x0b, 0x1a}),   // i8x16.extract_lane_s 11
	cat([]byte{0x43}, rep(0x0b, 4), []byte{0xfc, 0x00, 0x1a, 0x41, 0x00, 0xc0, 0x1a}), // i32.trunc_sat_f32_s ; i32.extend8_s
	{0x41, 0x00, 0xfe, 0x10, 0x02, 0x0b, 0x1a, 0xfe, 0x03, 0x00},             // i32.atomic.load offset=11 ; atomic.fence
	{0x0f},                                                                   // return (polymorphic)
	{0x00, 0x01, 0x1a, 0x6a, 0x1a},                                           // unreachable ; nop ; drop ; i32.add on the polymorphic stack ; drop
}

// VerifC03_DeadCode: a by-construction valid function whose taken path is `param == 0 ? 7 : 42` and that carries one of
// the sequences above in unreachable code (after a `br`, inside four nested blocks): the module is accepted by decoder,
// validator, interpreter compiler and wazevo front end, and both engines return the specified value for every argument.
//verif:opts split=dead:25
func VerifC03_DeadCode() {
	d := vDead[verifrt.Choose("dead", len(vDead))]
	body := cat([]byte{0x02, 0x40, 0x02, 0x40, 0x02, 0x40, 0x02, 0x40}, lg(0), []byte{0x45, 0x0d, 0x00, 0x0c, 0x03}, d,
		[]byte{0x0b}, i32const(7), []byte{0x0f, 0x0b, 0x0b, 0x0b}, i32const(42))
	spec := &interpreter.VerifModuleSpec{HasMem: true, MemMin: 1, MemMax: 2, GlobalTypes: []byte{i32}, GlobalInits: []int64{1},
		Funcs: []interpreter.VerifFuncSpec{{Params: []byte{i32}, Results: []byte{i32}, Body: body, Export: "f"}}}
	bin := interpreter.VerifEncode(spec)
	x := uint64(uint32(verifrt.U64("a0")))
	want := uint64(42)
	if x == 0 {
		want = 7
	}
	resI, trapI, _, _, ok := interpreter.VerifInterpRun(bin, "f", nil, 2, []uint64{x})
	verifrt.Assert(ok, "a valid module with instructions in unreachable code is accepted (decoder, validator, interpreter compiler)")
	if ok {
		verifrt.Assert(trapI == interpreter.VTrapNone && len(resI) == 1 && resI[0] == want, "interpreter: unreachable code does not change the result")
	}
	w, err := vCompile(bin, false, false)
	verifrt.Assert(err == nil, "a valid module with instructions in unreachable code is accepted by the compiler front end")
	if err != nil {
		return
	}
	w.mem = make([]byte, 65536)
	w.memMax = 2
	resC, outcome := w.call(0, []vVal{{lo: x}})
	if outcome == vOutUnsupported || w.unsupp != "" {
		verifrt.Note("unsupported: " + w.unsupp)
		verifrt.Assert(false, "the reference evaluator models every SSA construct of this program family")
		return
	}
	verifrt.Assert(outcome == vOutReturn && len(resC) == 1 && resC[0].lo == want, "compiler front end: unreachable code does not change the result")
	verifrt.Cover("ran")
}

// VerifC03_ReservedIndexEncodings: the reserved memory-index bytes of memory.size / memory.grow / memory.fill / memory.copy / memory.init
// written canonically (00) or as an over-long LEB128 zero (80 00, 80 80 00), in every combination: whatever the validator
// decides, an ACCEPTED module is decoded by both engines exactly as it was validated - the interpreter and the compiler
// front end run it and return the specified value (42). (Validator and engines must agree on how many bytes an
// immediate occupies.)
//verif:opts split=op:5
func VerifC03_ReservedIndexEncodings() {
	encs := [][]byte{{0x00}, {0x80, 0x00}, {0x80, 0x80, 0x00}}
	e1 := encs[verifrt.Choose("enc1", 3)]
	var body []byte
	passive := false
	switch verifrt.Choose("op", 5) {
	case 4: // memory.init(0, 0, 0) of passive segment 0
		passive = true
		body = cat(i32const(0), i32const(0), i32const(0), []byte{0xfc, 0x08, 0x00}, e1)
	case 0: // memory.size ; drop
		body = cat([]byte{0x3f}, e1, []byte{0x1a})
	case 1: // memory.grow(0) ; drop
		body = cat(i32const(0), []byte{0x40}, e1, []byte{0x1a})
	case 2: // memory.fill(0, 0, 0)
		body = cat(i32const(0), i32const(0), i32const(0), []byte{0xfc, 0x0b}, e1)
	case 3: // memory.copy(0, 0, 0)
		e2 := encs[verifrt.Choose("enc2", 3)]
		body = cat(i32const(0), i32const(0), i32const(0), []byte{0xfc, 0x0a}, e1, e2)
	}
	body = cat(body, i32const(42))
	spec := &interpreter.VerifModuleSpec{HasMem: true, MemMin: 1, MemMax: 2,
		Funcs: []interpreter.VerifFuncSpec{{Params: []byte{i32}, Results: []byte{i32}, Body: body, Export: "f"}}}
	bin := interpreter.VerifEncode(spec)
	if passive {
		bin = interpreter.VerifAddPassiveData(bin, []byte{1, 2, 3})
	}
	resI, trapI, _, _, ok := interpreter.VerifInterpRun(bin, "f", nil, 2, []uint64{0})
	if !ok {
		verifrt.Cover("rejected")
		return
	}
	verifrt.Assert(trapI == interpreter.VTrapNone && len(resI) == 1 && resI[0] == 42, "interpreter: an accepted module runs as it was validated")
	if passive {
		// the reference SSA evaluator does not model data instances: memory.init is compared on the interpreter only
		verifrt.Cover("accepted")
		return
	}
	w, err := vCompile(bin, false, false)
	verifrt.Assert(err == nil, "a module the validator accepts is accepted by the compiler front end")
	if err != nil {
		return
	}
	w.mem = make([]byte, 65536)
	w.memMax = 2
	resC, outcome := w.call(0, []vVal{{lo: 0}})
	if outcome == vOutUnsupported || w.unsupp != "" {
		verifrt.Note("unsupported: " + w.unsupp)
		verifrt.Assert(false, "the reference evaluator models every SSA construct of this program family")
		return
	}
	verifrt.Assert(outcome == vOutReturn && len(resC) == 1 && resC[0].lo == 42, "compiler front end: an accepted module runs as it was validated")
	verifrt.Cover("accepted")
}

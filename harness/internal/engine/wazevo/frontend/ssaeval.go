//go:build verif

package frontend

// A reference evaluator of wazevo's optimised SSA (harness side). The SSA is produced by the real front end
// (LowerToSSA) and the real optimisation passes (RunPasses) of the tree under test; this file gives each SSA opcode its
// meaning, models the execution/module context layout the front end compiles against, and turns every memory access of
// the compiled function into a safety obligation. Executed symbolically by gosym, natively for replay.

import (
	"math"
	"math/bits"

	"github.com/tetratelabs/wazero/api"
	"github.com/tetratelabs/wazero/experimental"
	"github.com/tetratelabs/wazero/internal/engine/interpreter"
	"github.com/tetratelabs/wazero/internal/engine/wazevo/ssa"
	"github.com/tetratelabs/wazero/internal/engine/wazevo/wazevoapi"
	"github.com/tetratelabs/wazero/internal/leb128"
	"github.com/tetratelabs/wazero/internal/verifrt"
	"github.com/tetratelabs/wazero/internal/wasm"
	"github.com/tetratelabs/wazero/internal/wasm/binary"
)

const verifSSAFeatures = api.CoreFeaturesV2 | experimental.CoreFeaturesThreads | experimental.CoreFeaturesTailCall

// address space of the model: concrete, far apart bases so that region membership is arithmetic
const (
	vModCtxBase  = uint64(0x1000_0000_0000)
	vExecCtxBase = uint64(0x2000_0000_0000)
	vTagBase     = uint64(0x7000_0000_0000) // values read from exec ctx / module ctx function slots
	vMemBase0    = uint64(0x4000_0000_0000)
	vMemEpoch    = uint64(1) << 36 // the memory "moves" by this much whenever it may have been reallocated
	vExtGlobBase = uint64(0x3000_0000_0000) // storage of globals owned by other instances
)

const (
	vOutReturn = iota
	vOutTrap
	vOutUnsupported
)

type vVal struct{ lo, hi uint64 }

type vFunc struct {
	c   *Compiler
	b   ssa.Builder
	typ *wasm.FunctionType
}

type vHostCall struct {
	index uint32
	args  []uint64
}

type vWorld struct {
	m       *wasm.Module
	off     wazevoapi.ModuleContextOffsetData
	funcs   []*vFunc
	mem     []byte // the linear memory (verifrt.Bytes), len(mem) is the current size
	memMax  uint32 // pages
	epoch   uint64
	globals []vVal
	// imported globals: slot i of the module context holds a POINTER to the owner's storage; extOwner[i] says which
	// external cell import i refers to (two imports of one exported global share a cell)
	extOwner []int
	ext      []vVal
	closed  uint64 // module exit code word (non-zero: closed)
	calls   []vHostCall
	hostRes func(index uint32, k int) uint64 // result k of the next call to imported function index
	hostFx  func(index uint32)              // side effect of a call to imported function index on the world (may be nil)
	// outcome
	exitCode wazevoapi.ExitCode
	steps    int
	depth    int
	unsupp   string
	exitWord uint64
	maxSteps int
	events   []VEvent
}

// VEvent is one listener notification emitted by compiled code.
type VEvent struct {
	Before bool
	Fn     uint32
	Vals   []uint64
}

func (w *vWorld) memBase() uint64 { return vMemBase0 + w.epoch*vMemEpoch }

// vCompile lowers every local function of the binary with the real front end and passes.
// vSharedCompiler: see vCompileCfg.
var vSharedCompiler bool

func vCompile(bin []byte, ensureTermination, listeners bool) (*vWorld, error) {
	return vCompileCfg(bin, ensureTermination, listeners, false, false, false)
}

// vCompileCfg: as vCompile with the decode-time options that are NOT part of the module identity (the compilation cache
// key): memory capacity from max, DWARF, custom sections.
func vCompileCfg(bin []byte, ensureTermination, listeners, capFromMax, dwarf, customSections bool) (*vWorld, error) {
	m, err := binary.DecodeModule(bin, verifSSAFeatures, 65536, capFromMax, dwarf, customSections)
	if err != nil {
		return nil, err
	}
	if err = m.Validate(verifSSAFeatures); err != nil {
		return nil, err
	}
	m.BuildMemoryDefinitions()
	w := &vWorld{m: m, off: wazevoapi.NewModuleContextOffsetData(m, listeners)}
	var b ssa.Builder
	var c *Compiler
	for i := range m.CodeSection {
		if !vSharedCompiler || i == 0 {
			// vSharedCompiler: one compiler and one builder for all functions, as the engine does; only the function
			// compiled LAST can then be evaluated (the builder holds one function at a time)
			b = ssa.NewBuilder()
			off := w.off
			c = NewFrontendCompiler(m, b, &off, ensureTermination, listeners, false)
		}
		typIndex := m.FunctionSection[i]
		typ := &m.TypeSection[typIndex]
		code := &m.CodeSection[i]
		c.Init(wasm.Index(i), typIndex, typ, code.LocalTypes, code.Body, listeners, code.BodyOffsetInCodeSection)
		c.LowerToSSA()
		b.RunPasses()
		w.funcs = append(w.funcs, &vFunc{c: c, b: b, typ: typ})
	}
	for i := range m.GlobalSection {
		g := &m.GlobalSection[i]
		var v vVal
		switch g.Init.Opcode {
		case wasm.OpcodeI32Const:
			x, _, _ := leb128.LoadInt32(g.Init.Data)
			v.lo = uint64(uint32(x))
		case wasm.OpcodeI64Const:
			x, _, _ := leb128.LoadInt64(g.Init.Data)
			v.lo = uint64(x)
		}
		w.globals = append(w.globals, v)
	}
	if m.MemorySection != nil {
		w.memMax = m.MemorySection.Max
	}
	return w, nil
}

func (w *vWorld) unsupported(why string) {
	if w.unsupp == "" {
		w.unsupp = why
	}
}

// ---- module / execution context model

func (w *vWorld) loadCtx(addr uint64, width uint64) (uint64, bool) {
	if d := addr - vModCtxBase; d < 1<<20 {
		off := wazevoapi.Offset(d &^ 7)
		cell := uint64(0)
		switch {
		case w.off.LocalMemoryBegin >= 0 && off == w.off.LocalMemoryBegin:
			cell = w.memBase()
		case w.off.LocalMemoryBegin >= 0 && off == w.off.LocalMemoryBegin+8:
			cell = uint64(len(w.mem)) // the length is a 64-bit field: 2^32 at 65536 pages
		case w.off.GlobalsBegin >= 0 && off >= w.off.GlobalsBegin && off < w.off.GlobalsBegin+wazevoapi.Offset(16*len(w.extOwner)):
			// an imported global: the slot holds the address of the owner's cell
			i := (off - w.off.GlobalsBegin) / 16
			if (off-w.off.GlobalsBegin)%16 == 0 {
				cell = vExtGlobBase + 16*uint64(w.extOwner[i])
			}
		case w.off.GlobalsBegin >= 0 && off >= w.off.GlobalsBegin+wazevoapi.Offset(16*len(w.extOwner)) && off < w.off.GlobalsBegin+wazevoapi.Offset(16*(len(w.extOwner)+len(w.globals))):
			i := (off-w.off.GlobalsBegin)/16 - wazevoapi.Offset(len(w.extOwner))
			if (off-w.off.GlobalsBegin)%16 == 0 {
				cell = w.globals[i].lo
			} else {
				cell = w.globals[i].hi
			}
		case w.off.ImportedFunctionsBegin >= 0 && off >= w.off.ImportedFunctionsBegin &&
			off < w.off.ImportedFunctionsBegin+wazevoapi.Offset(int(w.m.ImportFunctionCount)*wazevoapi.FunctionInstanceSize):
			cell = vTagBase + 0x10000 + uint64(off-w.off.ImportedFunctionsBegin) // function instance slot tag
		case w.off.BeforeListenerTrampolines1stElement >= 0 && off == w.off.BeforeListenerTrampolines1stElement:
			cell = vTagBase + 0x30000 // address of the array of before-listener trampolines (one per type index)
		case w.off.AfterListenerTrampolines1stElement >= 0 && off == w.off.AfterListenerTrampolines1stElement:
			cell = vTagBase + 0x40000
		default:
			w.unsupported("module context field")
			return 0, true
		}
		return (cell >> (8 * (d & 7))) & widthMask(width), true
	}
	if d := addr - (vTagBase + 0x30000); d < 0x20000 {
		return addr, true // an element of a listener trampoline array: identified by its own address
	}
	if d := addr - vExtGlobBase; d < uint64(16*len(w.ext)) {
		c := w.ext[d/16]
		v := c.lo
		if d%16 >= 8 {
			v = c.hi
		}
		return (v >> (8 * (d & 7))) & widthMask(width), true
	}
	if d := addr - vExecCtxBase; d < 4096 {
		if wazevoapi.Offset(d&^7) == wazevoapi.ExecutionContextOffsetStackBottomPtr {
			return 0, true // a large stack: the prologue's stack-bound check passes
		}
		// trampoline addresses and friends: the value identifies the slot
		return vTagBase + (d &^ 7), true
	}
	return 0, false
}

func widthMask(width uint64) uint64 {
	if width >= 8 {
		return ^uint64(0)
	}
	return uint64(1)<<(8*width) - 1
}

// memAccess checks that [addr, addr+width) lies in the current linear memory and returns the offset.
func (w *vWorld) memAccess(addr, width uint64) (uint64, bool) {
	d := addr - w.memBase()
	inRegion := d < 1<<34
	ok := verifrt.And(inRegion, d+width <= uint64(len(w.mem)))
	verifrt.Assert(ok, "compiled code dereferences only addresses inside the current linear memory [0,size) (or its own contexts)")
	// in bounds implies d < 2^32: use the 32-bit form of the offset, the shape the interpreter's address has
	return uint64(uint32(d)), ok
}

func (w *vWorld) load(addr, width uint64) uint64 {
	if v, isCtx := w.loadCtx(addr, width); isCtx {
		return v
	}
	d, ok := w.memAccess(addr, width)
	if !ok {
		verifrt.Assume(false)
	}
	var v uint64
	for i := uint64(0); i < width; i++ {
		v |= uint64(w.mem[d+i]) << (8 * i)
	}
	return v
}

func (w *vWorld) store(addr, width, v uint64) {
	if d := addr - vModCtxBase; d < 1<<20 {
		off := wazevoapi.Offset(d)
		if lo := w.off.GlobalsBegin + wazevoapi.Offset(16*len(w.extOwner)); w.off.GlobalsBegin >= 0 && off >= lo && off < lo+wazevoapi.Offset(16*len(w.globals)) {
			i := (off - lo) / 16
			switch {
			case (off-w.off.GlobalsBegin)%16 == 0 && width == 8:
				w.globals[i].lo = v
			case (off-w.off.GlobalsBegin)%16 == 0 && width == 4:
				w.globals[i].lo = w.globals[i].lo&^0xffffffff | v&0xffffffff
			case (off-w.off.GlobalsBegin)%16 == 8 && width == 8:
				w.globals[i].hi = v
			default:
				w.unsupported("partial global store")
			}
			return
		}
		w.unsupported("store to module context")
		return
	}
	if d := addr - vExecCtxBase; d < 4096 {
		if d == 0 {
			w.exitWord = v // machine code stores the exit code here before the exit sequence
		}
		return // other stores: saved state bookkeeping
	}
	if d := addr - vExtGlobBase; d < uint64(16*len(w.ext)) {
		c := &w.ext[d/16]
		switch {
		case d%16 == 0 && width == 8:
			c.lo = v
		case d%16 == 0 && width == 4:
			c.lo = c.lo&^0xffffffff | v&0xffffffff
		case d%16 == 8 && width == 8:
			c.hi = v
		default:
			w.unsupported("partial store to an imported global")
		}
		return
	}
	d, ok := w.memAccess(addr, width)
	if !ok {
		verifrt.Assume(false)
	}
	for i := uint64(0); i < width; i++ {
		w.mem[d+i] = byte(v >> (8 * i))
	}
}

// memmove models runtime.memmove called by compiled code: both ranges must lie inside the current linear memory (the
// only region this model lets compiled code copy between); overlapping ranges behave like memmove.
func (w *vWorld) memmove(dst, src, n uint64) {
	if n == 0 {
		return
	}
	d, ok1 := w.memAccess(dst, n)
	s, ok2 := w.memAccess(src, n)
	if !ok1 || !ok2 {
		verifrt.Assume(false)
	}
	copy(w.mem[d:d+n], w.mem[s:s+n])
}

// ---- evaluation

func typeBits(t ssa.Type) uint {
	switch t {
	case ssa.TypeI32, ssa.TypeF32:
		return 32
	case ssa.TypeI64, ssa.TypeF64:
		return 64
	}
	return 128
}

func trunc(v uint64, bitsN uint) uint64 {
	if bitsN >= 64 {
		return v
	}
	return v & (uint64(1)<<bitsN - 1)
}

func sext(v uint64, from uint) uint64 {
	sh := 64 - from
	return uint64(int64(v<<sh) >> sh)
}

// call evaluates local function idx (index among local functions) with wasm-level args.
func (w *vWorld) call(idx int, args []vVal) (res []vVal, outcome int) {
	w.depth++
	if w.depth > 8 {
		w.unsupported("call depth")
		return nil, vOutUnsupported
	}
	defer func() { w.depth-- }()
tailcall:
	f := w.funcs[idx]
	b := f.b
	env := map[ssa.ValueID]vVal{}
	blk := b.EntryBlock()
	params := append([]vVal{{lo: vExecCtxBase}, {lo: vModCtxBase}}, args...)
	for {
		if blk.Params() != len(params) {
			w.unsupported("block parameter arity")
			return nil, vOutUnsupported
		}
		for i := 0; i < blk.Params(); i++ {
			env[blk.Param(i).ID()] = params[i]
		}
		var next ssa.BasicBlock
		params = nil
		for in := blk.Root(); in != nil && next == nil; in = in.Next() {
			w.steps++
			if w.steps > 4000 || (w.maxSteps > 0 && w.steps > w.maxSteps) {
				w.unsupported("step bound")
				return nil, vOutUnsupported
			}
			get := func(v ssa.Value) vVal { return env[v.ID()] }
			set := func(v vVal) { env[in.Return().ID()] = v }
			switch op := in.Opcode(); op {
			case ssa.OpcodeJump, ssa.OpcodeBrz, ssa.OpcodeBrnz:
				cond, bargs, target := in.BranchData()
				take := true
				if op == ssa.OpcodeBrz {
					take = trunc(get(cond).lo, typeBits(cond.Type())) == 0
				} else if op == ssa.OpcodeBrnz {
					take = trunc(get(cond).lo, typeBits(cond.Type())) != 0
				}
				if take {
					tb := b.BasicBlock(target)
					if tb.ReturnBlock() {
						for _, a := range bargs {
							res = append(res, get(a))
						}
						return res, vOutReturn
					}
					for _, a := range bargs {
						params = append(params, get(a))
					}
					next = tb
				}
			case ssa.OpcodeBrTable:
				index, targets := in.BrTableData()
				tv := targets.View()
				i := trunc(get(index).lo, 32)
				k := len(tv) - 1 // default: last
				for j := 0; j < len(tv)-1; j++ {
					if i == uint64(j) {
						k = j
					}
				}
				next = b.BasicBlock(ssa.BasicBlockID(tv[k]))
			case ssa.OpcodeReturn:
				_, _, _, vs := in.Args()
				v1, v2, v3, _ := in.Args()
				for _, v := range []ssa.Value{v1, v2, v3} {
					if v.Valid() {
						res = append(res, get(v))
					}
				}
				for _, v := range vs {
					res = append(res, get(v))
				}
				return res, vOutReturn
			case ssa.OpcodeExitWithCode:
				_, code := in.ExitWithCodeData()
				w.exitCode = code
				return nil, vOutTrap
			case ssa.OpcodeExitIfTrueWithCode:
				_, c, code := in.ExitIfTrueWithCodeData()
				if trunc(get(c).lo, typeBits(c.Type())) != 0 {
					w.exitCode = code
					return nil, vOutTrap
				}
			case ssa.OpcodeIconst:
				set(vVal{lo: trunc(in.ConstantVal(), typeBits(in.Return().Type()))})
			case ssa.OpcodeF32const, ssa.OpcodeF64const:
				set(vVal{lo: in.ConstantVal()})
			case ssa.OpcodeLoad:
				ptr, off, typ := in.LoadData()
				if typ == ssa.TypeV128 {
					a := get(ptr).lo + uint64(off)
					set(vVal{lo: w.load(a, 8), hi: w.load(a+8, 8)})
				} else {
					set(vVal{lo: w.load(get(ptr).lo+uint64(off), uint64(typeBits(typ)/8))})
				}
			case ssa.OpcodeUload8, ssa.OpcodeUload16, ssa.OpcodeUload32, ssa.OpcodeSload8, ssa.OpcodeSload16, ssa.OpcodeSload32:
				ptr, off, _ := in.LoadData()
				var width uint64
				signed := false
				switch op {
				case ssa.OpcodeUload8:
					width = 1
				case ssa.OpcodeSload8:
					width, signed = 1, true
				case ssa.OpcodeUload16:
					width = 2
				case ssa.OpcodeSload16:
					width, signed = 2, true
				case ssa.OpcodeUload32:
					width = 4
				default:
					width, signed = 4, true
				}
				v := w.load(get(ptr).lo+uint64(off), width)
				if signed {
					v = sext(v, uint(width*8))
				}
				set(vVal{lo: trunc(v, typeBits(in.Return().Type()))})
			case ssa.OpcodeStore, ssa.OpcodeIstore8, ssa.OpcodeIstore16, ssa.OpcodeIstore32:
				val, ptr, off, sizeBits := in.StoreData()
				a := get(ptr).lo + uint64(off)
				if sizeBits == 128 {
					w.store(a, 8, get(val).lo)
					w.store(a+8, 8, get(val).hi)
				} else {
					w.store(a, uint64(sizeBits/8), trunc(get(val).lo, uint(sizeBits)))
				}
			case ssa.OpcodeIadd, ssa.OpcodeIsub, ssa.OpcodeImul, ssa.OpcodeBand, ssa.OpcodeBor, ssa.OpcodeBxor,
				ssa.OpcodeIshl, ssa.OpcodeUshr, ssa.OpcodeSshr, ssa.OpcodeRotl, ssa.OpcodeRotr:
				x, y := in.Arg2()
				n := typeBits(x.Type())
				a, c := get(x).lo, get(y).lo
				var r uint64
				sh := c % uint64(n)
				switch op {
				case ssa.OpcodeIadd:
					r = a + c
				case ssa.OpcodeIsub:
					r = a - c
				case ssa.OpcodeImul:
					r = a * c
				case ssa.OpcodeBand:
					r = a & c
				case ssa.OpcodeBor:
					r = a | c
				case ssa.OpcodeBxor:
					r = a ^ c
				case ssa.OpcodeIshl:
					r = a << sh
				case ssa.OpcodeUshr:
					r = trunc(a, n) >> sh
				case ssa.OpcodeSshr:
					r = uint64(int64(sext(a, n)) >> sh)
				case ssa.OpcodeRotl:
					r = trunc(a, n)<<sh | trunc(a, n)>>((uint64(n)-sh)%uint64(n))
				case ssa.OpcodeRotr:
					r = trunc(a, n)>>sh | trunc(a, n)<<((uint64(n)-sh)%uint64(n))
				}
				set(vVal{lo: trunc(r, n)})
			case ssa.OpcodeUdiv, ssa.OpcodeSdiv, ssa.OpcodeUrem, ssa.OpcodeSrem:
				x, y, _ := in.Arg3()
				n := typeBits(x.Type())
				a, c := trunc(get(x).lo, n), trunc(get(y).lo, n)
				if c == 0 {
					w.exitCode = wazevoapi.ExitCodeIntegerDivisionByZero
					return nil, vOutTrap
				}
				var r uint64
				if n == 32 {
					// computed at the operand width (a 64-bit division of extended operands is needlessly hard for the solver)
					a32, c32 := uint32(a), uint32(c)
					switch op {
					case ssa.OpcodeUdiv:
						r = uint64(a32 / c32)
					case ssa.OpcodeUrem:
						r = uint64(a32 % c32)
					case ssa.OpcodeSdiv:
						if int32(c32) == -1 && a32 == 1<<31 {
							w.exitCode = wazevoapi.ExitCodeIntegerOverflow
							return nil, vOutTrap
						}
						r = uint64(uint32(int32(a32) / int32(c32)))
					case ssa.OpcodeSrem:
						if int32(c32) == -1 {
							r = 0
						} else {
							r = uint64(uint32(int32(a32) % int32(c32)))
						}
					}
					set(vVal{lo: r})
					continue
				}
				switch op {
				case ssa.OpcodeUdiv:
					r = a / c
				case ssa.OpcodeUrem:
					r = a % c
				case ssa.OpcodeSdiv:
					sa, sc := int64(sext(a, n)), int64(sext(c, n))
					if sc == -1 && a == uint64(1)<<(n-1) {
						w.exitCode = wazevoapi.ExitCodeIntegerOverflow
						return nil, vOutTrap
					}
					r = uint64(sa / sc)
				case ssa.OpcodeSrem:
					sa, sc := int64(sext(a, n)), int64(sext(c, n))
					if sc == -1 {
						r = 0
					} else {
						r = uint64(sa % sc)
					}
				}
				set(vVal{lo: trunc(r, n)})
			case ssa.OpcodeClz, ssa.OpcodeCtz, ssa.OpcodePopcnt:
				x := in.Arg()
				n := typeBits(x.Type())
				a := trunc(get(x).lo, n)
				var r int
				switch {
				case op == ssa.OpcodeClz && n == 32:
					r = bits.LeadingZeros32(uint32(a))
				case op == ssa.OpcodeClz:
					r = bits.LeadingZeros64(a)
				case op == ssa.OpcodeCtz && n == 32:
					r = bits.TrailingZeros32(uint32(a))
				case op == ssa.OpcodeCtz:
					r = bits.TrailingZeros64(a)
				default:
					r = bits.OnesCount64(a)
				}
				set(vVal{lo: uint64(r)})
			case ssa.OpcodeIcmp:
				x, y, c := in.IcmpData()
				n := typeBits(x.Type())
				a, d := trunc(get(x).lo, n), trunc(get(y).lo, n)
				sa, sd := int64(sext(a, n)), int64(sext(d, n))
				var r bool
				switch c {
				case ssa.IntegerCmpCondEqual:
					r = a == d
				case ssa.IntegerCmpCondNotEqual:
					r = a != d
				case ssa.IntegerCmpCondSignedLessThan:
					r = sa < sd
				case ssa.IntegerCmpCondSignedGreaterThanOrEqual:
					r = sa >= sd
				case ssa.IntegerCmpCondSignedGreaterThan:
					r = sa > sd
				case ssa.IntegerCmpCondSignedLessThanOrEqual:
					r = sa <= sd
				case ssa.IntegerCmpCondUnsignedLessThan:
					r = a < d
				case ssa.IntegerCmpCondUnsignedGreaterThanOrEqual:
					r = a >= d
				case ssa.IntegerCmpCondUnsignedGreaterThan:
					r = a > d
				case ssa.IntegerCmpCondUnsignedLessThanOrEqual:
					r = a <= d
				}
				set(vVal{lo: b2u64(r)})
			case ssa.OpcodeSelect:
				c, x, y := in.SelectData()
				if trunc(get(c).lo, typeBits(c.Type())) != 0 {
					set(get(x))
				} else {
					set(get(y))
				}
			case ssa.OpcodeUExtend, ssa.OpcodeSExtend:
				from, to, signed := in.ExtendData()
				v := trunc(get(in.Arg()).lo, uint(from))
				if signed {
					v = sext(v, uint(from))
				}
				set(vVal{lo: trunc(v, uint(to))})
			case ssa.OpcodeIreduce:
				set(vVal{lo: trunc(get(in.Arg()).lo, typeBits(in.Return().Type()))})
			case ssa.OpcodeBitcast:
				x, _ := in.BitcastData()
				set(vVal{lo: trunc(get(x).lo, typeBits(in.Return().Type()))})
			case ssa.OpcodeFadd, ssa.OpcodeFsub, ssa.OpcodeFmul, ssa.OpcodeFdiv:
				x, y := in.Arg2()
				if x.Type() == ssa.TypeF32 {
					a, c := math.Float32frombits(uint32(get(x).lo)), math.Float32frombits(uint32(get(y).lo))
					var r float32
					switch op {
					case ssa.OpcodeFadd:
						r = a + c
					case ssa.OpcodeFsub:
						r = a - c
					case ssa.OpcodeFmul:
						r = a * c
					default:
						r = a / c
					}
					set(vVal{lo: uint64(math.Float32bits(r))})
				} else {
					a, c := math.Float64frombits(get(x).lo), math.Float64frombits(get(y).lo)
					var r float64
					switch op {
					case ssa.OpcodeFadd:
						r = a + c
					case ssa.OpcodeFsub:
						r = a - c
					case ssa.OpcodeFmul:
						r = a * c
					default:
						r = a / c
					}
					set(vVal{lo: math.Float64bits(r)})
				}
			case ssa.OpcodeFneg:
				x := in.Arg()
				set(vVal{lo: get(x).lo ^ uint64(1)<<(typeBits(x.Type())-1)})
			case ssa.OpcodeFabs:
				x := in.Arg()
				set(vVal{lo: get(x).lo &^ (uint64(1) << (typeBits(x.Type()) - 1))})
			case ssa.OpcodeFcopysign:
				x, y := in.Arg2()
				s := uint64(1) << (typeBits(x.Type()) - 1)
				set(vVal{lo: get(x).lo&^s | get(y).lo&s})
			case ssa.OpcodeFcmp:
				x, y, c := in.FcmpData()
				var a, d float64
				if x.Type() == ssa.TypeF32 {
					a, d = float64(math.Float32frombits(uint32(get(x).lo))), float64(math.Float32frombits(uint32(get(y).lo)))
				} else {
					a, d = math.Float64frombits(get(x).lo), math.Float64frombits(get(y).lo)
				}
				var r bool
				switch c {
				case ssa.FloatCmpCondEqual:
					r = a == d
				case ssa.FloatCmpCondNotEqual:
					r = a != d
				case ssa.FloatCmpCondLessThan:
					r = a < d
				case ssa.FloatCmpCondLessThanOrEqual:
					r = a <= d
				case ssa.FloatCmpCondGreaterThan:
					r = a > d
				case ssa.FloatCmpCondGreaterThanOrEqual:
					r = a >= d
				}
				set(vVal{lo: b2u64(r)})
			case ssa.OpcodeCall:
				ref, _, cargs := in.CallData()
				fidx := uint32(ref)
				if fidx < w.m.ImportFunctionCount {
					w.unsupported("direct call of an imported function")
					return nil, vOutUnsupported
				}
				var wa []vVal
				for _, a := range cargs[2:] {
					wa = append(wa, get(a))
				}
				r, oc := w.call(int(fidx-w.m.ImportFunctionCount), wa)
				if oc != vOutReturn {
					return nil, oc
				}
				first, rest := in.Returns()
				k := 0
				if first.Valid() {
					env[first.ID()] = r[k]
					k++
				}
				for _, rv := range rest {
					env[rv.ID()] = r[k]
					k++
				}
				w.epoch++ // a call may have grown (moved) the memory
			case ssa.OpcodeCallIndirect:
				fp, _, cargs, _ := in.CallIndirectData()
				tag := get(fp).lo - vTagBase
				switch wazevoapi.Offset(tag) {
				case wazevoapi.ExecutionContextOffsetMemoryGrowTrampolineAddress:
					delta := trunc(get(cargs[1]).lo, 32)
					old := uint64(len(w.mem)) >> 16
					r := uint64(0xffffffff)
					if old+delta <= uint64(w.memMax) {
						r = old
						w.mem = append(w.mem, make([]byte, delta<<16)...) // new pages are zero
					}
					w.epoch++
					set(vVal{lo: r})
				case wazevoapi.ExecutionContextOffsetCheckModuleExitCodeTrampolineAddress:
					if w.closed != 0 {
						w.exitCode = wazevoapi.ExitCodeCheckModuleExitCode
						return nil, vOutTrap
					}
				case wazevoapi.ExecutionContextOffsetMemmoveAddress:
					// Go's runtime.memmove(dst, src, n)
					w.memmove(get(cargs[0]).lo, get(cargs[1]).lo, get(cargs[2]).lo)
				default:
					if tag >= 0x30000 && tag < 0x50000 {
						// listener trampoline: (execCtx, function index, values...)
						ev := VEvent{Before: tag < 0x40000, Fn: uint32(get(cargs[1]).lo)}
						for _, a := range cargs[2:] {
							ev.Vals = append(ev.Vals, trunc(get(a).lo, typeBits(a.Type())))
						}
						w.events = append(w.events, ev)
						w.epoch++
					} else if tag >= 0x10000 && tag < 0x20000 {
						// imported function: slot tag -> function index
						idx := uint32((tag - 0x10000) / wazevoapi.FunctionInstanceSize)
						hc := vHostCall{index: idx}
						for _, a := range cargs[2:] {
							hc.args = append(hc.args, get(a).lo)
						}
						w.calls = append(w.calls, hc)
						if w.hostFx != nil {
							w.hostFx(idx)
						}
						first, rest := in.Returns()
						k := 0
						if first.Valid() {
							env[first.ID()] = vVal{lo: trunc(w.hostRes(idx, k), typeBits(first.Type()))}
							k++
						}
						for _, rv := range rest {
							env[rv.ID()] = vVal{lo: trunc(w.hostRes(idx, k), typeBits(rv.Type()))}
							k++
						}
						w.epoch++
					} else {
						w.unsupported("indirect call")
						return nil, vOutUnsupported
					}
				}
			case ssa.OpcodeTailCallReturnCall:
				ref, _, cargs := in.CallData()
				fidx := uint32(ref)
				if fidx < w.m.ImportFunctionCount {
					w.unsupported("tail call of an imported function")
					return nil, vOutUnsupported
				}
				var wa []vVal
				for _, a := range cargs[2:] {
					wa = append(wa, get(a))
				}
				// a proper tail call: the callee replaces this activation (no depth is consumed)
				idx, args = int(fidx-w.m.ImportFunctionCount), wa
				w.epoch++
				goto tailcall
			case ssa.OpcodeUndefined:
				// nothing
			default:
				w.unsupported("opcode " + op.String())
				return nil, vOutUnsupported
			}
		}
		if next == nil {
			w.unsupported("block falls off its end")
			return nil, vOutUnsupported
		}
		blk = next
	}
}

func b2u64(b bool) uint64 {
	if b {
		return 1
	}
	return 0
}

// VerifCompileForBackend runs the real front end and SSA passes on local function idx of bin and returns the builder,
// ready to be handed to a back end (used by the amd64 harness).
func VerifCompileForBackend(bin []byte, idx int) (ssa.Builder, error) {
	w, err := vCompile(bin, false, false)
	if err != nil {
		return nil, err
	}
	return w.funcs[idx].b, nil
}

// ---- exported view of the memory/context model for the machine-level evaluator (amd64 harness)

type VWorld = vWorld

const (
	VModCtxBase  = vModCtxBase
	VExecCtxBase = vExecCtxBase
	VTagBase     = vTagBase
)

func VCompile(bin []byte) (*VWorld, error)                 { return vCompile(bin, false, false) }
func (w *vWorld) Builder(i int) ssa.Builder                  { return w.funcs[i].b }
func (w *vWorld) NumFuncs() int                              { return len(w.funcs) }
func (w *vWorld) ImportCount() uint32                        { return w.m.ImportFunctionCount }
func (w *vWorld) Load(addr, width uint64) uint64             { return w.load(addr, width) }
func (w *vWorld) Store(addr, width, v uint64)                { w.store(addr, width, v) }
func (w *vWorld) Mem() []byte                                { return w.mem }
func (w *vWorld) SetMem(b []byte, maxPages uint32)           { w.mem, w.memMax = b, maxPages }
func (w *vWorld) Moved()                                     { w.epoch++ }
func (w *vWorld) Memmove(dst, src, n uint64)                 { w.memmove(dst, src, n) }
func (w *vWorld) Unsupported() string                        { return w.unsupp }
func (w *vWorld) MarkUnsupported(s string)                   { w.unsupported(s) }
func (w *vWorld) Global(i int) uint64                        { return w.globals[i].lo }
func (w *vWorld) LoadExit() uint64                          { return w.exitWord }
func (w *vWorld) SetClosed(code uint64)                     { w.closed = code }
func (w *vWorld) Closed() bool                               { return w.closed != 0 }
func (w *vWorld) ParamTypes(i int) []wasm.ValueType          { return w.funcs[i].typ.Params }
func (w *vWorld) ResultTypes(i int) []wasm.ValueType         { return w.funcs[i].typ.Results }

// Grow performs memory.grow as the trampoline would; returns the previous size in pages or 0xffffffff.
func (w *vWorld) Grow(delta uint64) uint64 {
	old := uint64(len(w.mem)) >> 16
	r := uint64(0xffffffff)
	if old+delta <= uint64(w.memMax) {
		r = old
		w.mem = append(w.mem, make([]byte, delta<<16)...)
	}
	w.epoch++
	return r
}

// EvalSSA evaluates local function idx on the optimised SSA; returns results, outcome and exit code.
func (w *vWorld) EvalSSA(idx int, args []uint64) ([]uint64, int, wazevoapi.ExitCode) {
	wa := make([]vVal, len(args))
	for i := range args {
		wa[i] = vVal{lo: args[i]}
	}
	r, oc := w.call(idx, wa)
	out := make([]uint64, len(r))
	for i := range r {
		out[i] = r[i].lo
	}
	return out, oc, w.exitCode
}

// VProgram returns program i of a named family ("T1", "T3") as a binary plus what the caller needs to drive it.
func VProgram(set string, i int) (bin []byte, params, results []byte, mem bool, globals int, name string, count int) {
	var ps []vProgram
	switch set {
	case "T1":
		ps = vT1
	case "T3":
		ps = vT3
	case "T1c":
		ps = vT1c
	case "T2s":
		ps = vT2Single(vOffsetsQuick)
	case "T2r":
		ps = vT2Reuse([]uint32{0, 0xffff, 0x80000000, 0xfffffff8})
	case "T6":
		ps = vT6
	case "T6m": // the members of T6 that access memory (lane loads/stores, scalars fused from loads)
		for _, q := range vT6 {
			if q.mem {
				ps = append(ps, q)
			}
		}
	}
	count = len(ps)
	if i >= count {
		return
	}
	p := &ps[i]
	spec := &interpreter.VerifModuleSpec{HasMem: p.mem, MemMin: 1, MemMax: 65536}
	spec.Funcs = append(spec.Funcs, interpreter.VerifFuncSpec{Params: p.params, Results: p.results, Locals: p.locals, Body: p.body, Export: "f"})
	spec.Funcs = append(spec.Funcs, p.extra...)
	for g := 0; g < p.globals; g++ {
		spec.GlobalTypes = append(spec.GlobalTypes, i32)
		spec.GlobalInits = append(spec.GlobalInits, int64(g+1))
	}
	return interpreter.VerifEncode(spec), p.params, p.results, p.mem, p.globals, p.name, count
}

// VProgramLoopMax: non-zero when parameter 0 of the program is a loop counter that must be assumed in 1..max.
func VProgramLoopMax(set string, i int) uint32 {
	if set == "T3" && i < len(vT3) {
		return vT3[i].loopMax
	}
	return 0
}

// VTrapKind maps an exit code to the shared trap kinds.
func VTrapKind(code wazevoapi.ExitCode) int {
	w := &vWorld{exitCode: code}
	return vTrapOf(w, vOutTrap)
}

//go:build verif

package frontend

import (
	"github.com/tetratelabs/wazero/internal/engine/interpreter"
	"github.com/tetratelabs/wazero/internal/engine/wazevo/wazevoapi"
	"github.com/tetratelabs/wazero/internal/verifrt"
)

// VerifC07_SSA_Cycles: the wazevo front end, compiling with close-on-context-done, must put an exit-code check on every
// cycle that does not grow the call stack: with the module closed, the optimised SSA of each cycle shape - in a module
// with and without imported functions (function indexes shift) - leaves through the check within the step bound,
// whatever the branch conditions are.
//verif:opts split=shape:10
func VerifC07_SSA_Cycles() {
	type shape struct {
		funcs []interpreter.VerifFuncSpec
	}
	imports := verifrt.Choose("imports", 3) // 0, 1 or 2 imported functions in front of the local ones
	k := byte(imports)                      // index of the first local function
	shapes := []shape{
		{funcs: []interpreter.VerifFuncSpec{{Params: []byte{i32}, Body: []byte{0x03, 0x40, 0x0c, 0x00, 0x0b}}}},                   // loop br
		{funcs: []interpreter.VerifFuncSpec{{Params: []byte{i32}, Body: []byte{0x03, 0x40, 0x20, 0x00, 0x0d, 0x00, 0x0b}}}},       // loop br_if
		{funcs: []interpreter.VerifFuncSpec{{Params: []byte{i32}, Body: []byte{0x03, 0x40, 0x03, 0x40, 0x20, 0x00, 0x0d, 0x00, 0x0b, 0x0c, 0x00, 0x0b}}}}, // nested loops
		{funcs: []interpreter.VerifFuncSpec{{Params: []byte{i32}, Body: []byte{0x20, 0x00, 0x12, k}}}},                           // return_call self
		{funcs: []interpreter.VerifFuncSpec{{Params: []byte{i32}, Body: []byte{0x20, 0x00, 0x12, k + 1}}, {Params: []byte{i32}, Body: []byte{0x20, 0x00, 0x12, k}}}}, // return_call mutual
		{funcs: []interpreter.VerifFuncSpec{{Params: []byte{i32}, Body: []byte{0x20, 0x00, 0x12, k + 1}}, {Params: []byte{i32}, Body: []byte{0x20, 0x00, 0x12, k + 2}}, {Params: []byte{i32}, Body: []byte{0x20, 0x00, 0x12, k}}}}, // three-cycle
		{funcs: []interpreter.VerifFuncSpec{{Params: []byte{i32}, Body: []byte{0x02, 0x40, 0x03, 0x40, 0x20, 0x00, 0x0e, 0x01, 0x00, 0x01, 0x0b, 0x0b, 0x20, 0x00, 0x12, k}}}}, // br_table loop then tail call
		// a switch inside a loop: the loop is repeated only through a br_table whose FIRST label is not the loop
		{funcs: []interpreter.VerifFuncSpec{{Params: []byte{i32}, Body: []byte{0x03, 0x40, 0x02, 0x40, 0x20, 0x00, 0x0e, 0x02, 0x00, 0x01, 0x01, 0x0b, 0x0b}}}},             // loop(block(br_table break continue default continue))
		{funcs: []interpreter.VerifFuncSpec{{Params: []byte{i32}, Body: []byte{0x03, 0x40, 0x02, 0x40, 0x20, 0x00, 0x0e, 0x01, 0x00, 0x01, 0x0b, 0x0b}}}},                   // loop(block(br_table break default continue))
		{funcs: []interpreter.VerifFuncSpec{{Params: []byte{i32}, Body: []byte{0x03, 0x40, 0x02, 0x40, 0x02, 0x40, 0x20, 0x00, 0x0e, 0x02, 0x00, 0x01, 0x02, 0x0b, 0x0b, 0x0b}}}}, // the loop is the default of three targets
	}
	sh := shapes[verifrt.Choose("shape", len(shapes))]
	spec := &interpreter.VerifModuleSpec{Funcs: sh.funcs}
	spec.Funcs[0].Export = "f"
	for i := 0; i < imports; i++ {
		spec.HostImports = append(spec.HostImports, interpreter.VerifFuncSpec{Export: []string{"h0", "h1"}[i]})
	}
	w, err := vCompile(interpreter.VerifEncode(spec), true, false)
	verifrt.Assert(err == nil, "by-construction valid module is accepted by the compiler front end")
	if err != nil {
		return
	}
	w.closed = 1
	w.maxSteps = 80 // far more than any of these cycles needs to reach a check, fewer than the executor's own loop bound
	x := uint64(verifrt.U32("x"))
	_, outcome := w.call(0, []vVal{{lo: x}})
	stopped := outcome == vOutTrap && w.exitCode == wazevoapi.ExitCodeCheckModuleExitCode
	if outcome == vOutUnsupported && w.unsupp != "step bound" {
		verifrt.Note("unsupported: " + w.unsupp)
		verifrt.Assert(false, "the reference evaluator models every SSA construct of this program family")
		return
	}
	// either the guest leaves through the check, or it was not cycling for this argument and returned; going on beyond the
	// step bound with the module closed is the violation
	verifrt.Assert(stopped || outcome == vOutReturn, "with the module closed, every guest cycle leaves through the exit-code check (compiled SSA)")
	if stopped {
		verifrt.Cover("stopped")
	}
}

//go:build verif

package frontend

import (
	"github.com/tetratelabs/wazero/internal/engine/interpreter"
	"github.com/tetratelabs/wazero/internal/engine/wazevo/wazevoapi"
	"github.com/tetratelabs/wazero/internal/leb128"
	"github.com/tetratelabs/wazero/internal/verifrt"
)

const (
	i32 = interpreter.VI32
	i64 = interpreter.VI64
	f32 = interpreter.VF32
	f64 = interpreter.VF64
)

type vProgram struct {
	name            string
	params, results []byte
	locals          []byte
	body            []byte
	mem             bool
	globals         int // number of mutable i32 globals (initial value = index + 1)
	extra           []interpreter.VerifFuncSpec
	loopMax         uint32 // non-zero: parameter 0 is a loop counter, assumed in 1..loopMax
	// decode-time configuration the code is COMPILED under (the instance it runs in is always the general one: a memory
	// that may move whenever it grows); memMax 0 means 65536 pages
	memMax                            uint32
	capFromMax, dwarf, customSections bool
	// pre, when set, is a function placed BEFORE the tested one in the module and compiled first by the SAME front-end
	// compiler and SSA builder (what the engine does for the functions of a module): the tested function then is index 1
	pre *vProgram
}

func vTrapOf(w *vWorld, outcome int) int {
	if outcome == vOutReturn {
		return interpreter.VTrapNone
	}
	switch w.exitCode {
	case wazevoapi.ExitCodeUnreachable:
		return interpreter.VTrapUnreachable
	case wazevoapi.ExitCodeMemoryOutOfBounds:
		return interpreter.VTrapOOB
	case wazevoapi.ExitCodeIntegerDivisionByZero:
		return interpreter.VTrapDivZero
	case wazevoapi.ExitCodeIntegerOverflow:
		return interpreter.VTrapOverflow
	case wazevoapi.ExitCodeInvalidConversionToInteger:
		return interpreter.VTrapInvalidConv
	}
	return interpreter.VTrapOther
}

func vSlot(name string, t byte) uint64 {
	v := verifrt.U64(name)
	if t == i32 || t == f32 {
		return uint64(uint32(v))
	}
	return v
}

// vCompare runs p on the interpreter (real pipeline) and evaluates the optimised wazevo SSA of the same binary, both from
// the same arbitrary memory (size 0..65536 pages) and arguments, and asserts the same outcome, results, globals and memory.
func vCompare(p *vProgram) {
	memMax := uint32(65536)
	if p.memMax != 0 {
		memMax = p.memMax
	}
	spec := &interpreter.VerifModuleSpec{HasMem: p.mem, MemMin: 1, MemMax: memMax}
	tested := 0
	if p.pre != nil {
		spec.Funcs = append(spec.Funcs, interpreter.VerifFuncSpec{Params: p.pre.params, Results: p.pre.results, Locals: p.pre.locals, Body: p.pre.body})
		tested = 1
	}
	spec.Funcs = append(spec.Funcs, interpreter.VerifFuncSpec{Params: p.params, Results: p.results, Locals: p.locals, Body: p.body, Export: "f"})
	spec.Funcs = append(spec.Funcs, p.extra...)
	for i := 0; i < p.globals; i++ {
		spec.GlobalTypes = append(spec.GlobalTypes, i32)
		spec.GlobalInits = append(spec.GlobalInits, int64(i+1))
	}
	bin := interpreter.VerifEncode(spec)
	vSharedCompiler = p.pre != nil
	w, err := vCompileCfg(bin, false, false, p.capFromMax, p.dwarf, p.customSections)
	vSharedCompiler = false
	verifrt.Assert(err == nil, "by-construction valid module is accepted by the compiler front end")
	if err != nil {
		return
	}
	var memI []byte
	if p.mem {
		pages := verifrt.U32("pages")
		verifrt.Assume(pages <= memMax)
		size := uint64(pages) << 16
		memI = verifrt.Bytes("mem", size)
		w.mem = verifrt.Bytes("mem", size) // same arbitrary contents, separate copy
		w.memMax = memMax
	}
	names := []string{"a0", "a1", "a2", "a3"}
	args := make([]uint64, len(p.params))
	wargs := make([]vVal, len(p.params))
	for i, t := range p.params {
		args[i] = vSlot(names[i], t)
		wargs[i] = vVal{lo: args[i]}
	}
	resI, trapI, finalI, globI, ok := interpreter.VerifInterpRun(bin, "f", memI, memMax, args)
	verifrt.Assert(ok, "module accepted by the interpreter")
	if !ok {
		return
	}
	resC, outcome := w.call(tested, wargs)
	if outcome == vOutUnsupported || w.unsupp != "" {
		// an SSA construct the reference evaluator does not model: skipped, never passed
		verifrt.Note("unsupported: " + w.unsupp)
		verifrt.Assert(false, "the reference evaluator models every SSA construct of this program family")
		return
	}
	trapC := vTrapOf(w, outcome)
	verifrt.Assert(trapC == trapI, "compiler and interpreter agree on the outcome kind (return or which trap)")
	if trapC == interpreter.VTrapNone && trapI == interpreter.VTrapNone {
		verifrt.Assert(len(resC) == len(resI), "same number of results")
		for i := range resI {
			if i < len(resC) {
				verifrt.Assert(resC[i].lo == resI[i], "compiler and interpreter agree on every result, bit for bit")
			}
		}
	}
	for i := 0; i < p.globals; i++ {
		verifrt.Assert(w.globals[i].lo == globI[i], "compiler and interpreter agree on the final globals")
	}
	if p.mem {
		verifrt.Assert(len(w.mem) == len(finalI), "compiler and interpreter agree on the final memory size")
		probe := verifrt.U64("probe")
		if probe < uint64(len(finalI)) && probe < uint64(len(w.mem)) {
			verifrt.Assert(w.mem[probe] == finalI[probe], "compiler and interpreter agree on the final memory contents")
		}
	}
	verifrt.Cover("compared")
}

func lg(i byte) []byte { return []byte{0x20, i} }

func cat(bs ...[]byte) []byte {
	var out []byte
	for _, b := range bs {
		out = append(out, b...)
	}
	return out
}

// T1: one numeric instruction per program (integer; floats that share Go's operator with the interpreter).
var vT1 = []vProgram{}

func init() {
	bin32 := []byte{0x6a, 0x6b, 0x6c, 0x6d, 0x6e, 0x6f, 0x70, 0x71, 0x72, 0x73, 0x74, 0x75, 0x76, 0x77, 0x78, 0x46, 0x47, 0x48, 0x49, 0x4a, 0x4b, 0x4c, 0x4d, 0x4e, 0x4f}
	for _, op := range bin32 {
		vT1 = append(vT1, vProgram{name: "i32.bin", params: []byte{i32, i32}, results: []byte{i32}, body: cat(lg(0), lg(1), []byte{op})})
	}
	for _, op := range []byte{0x67, 0x68, 0x69, 0x45} {
		vT1 = append(vT1, vProgram{name: "i32.un", params: []byte{i32}, results: []byte{i32}, body: cat(lg(0), []byte{op})})
	}
	for op := byte(0x7c); op <= 0x8a; op++ {
		vT1 = append(vT1, vProgram{name: "i64.bin", params: []byte{i64, i64}, results: []byte{i64}, body: cat(lg(0), lg(1), []byte{op})})
	}
	for op := byte(0x51); op <= 0x5a; op++ {
		vT1 = append(vT1, vProgram{name: "i64.cmp", params: []byte{i64, i64}, results: []byte{i32}, body: cat(lg(0), lg(1), []byte{op})})
	}
	for _, op := range []byte{0x79, 0x7a, 0x7b} {
		vT1 = append(vT1, vProgram{name: "i64.un", params: []byte{i64}, results: []byte{i64}, body: cat(lg(0), []byte{op})})
	}
	vT1 = append(vT1, vProgram{name: "i64.eqz", params: []byte{i64}, results: []byte{i32}, body: cat(lg(0), []byte{0x50})})
	// conversions between integers, sign-extension operators, reinterpretations
	vT1 = append(vT1,
		vProgram{name: "wrap", params: []byte{i64}, results: []byte{i32}, body: cat(lg(0), []byte{0xa7})},
		vProgram{name: "extend_s", params: []byte{i32}, results: []byte{i64}, body: cat(lg(0), []byte{0xac})},
		vProgram{name: "extend_u", params: []byte{i32}, results: []byte{i64}, body: cat(lg(0), []byte{0xad})},
		vProgram{name: "i32.extend8_s", params: []byte{i32}, results: []byte{i32}, body: cat(lg(0), []byte{0xc0})},
		vProgram{name: "i32.extend16_s", params: []byte{i32}, results: []byte{i32}, body: cat(lg(0), []byte{0xc1})},
		vProgram{name: "i64.extend8_s", params: []byte{i64}, results: []byte{i64}, body: cat(lg(0), []byte{0xc2})},
		vProgram{name: "i64.extend16_s", params: []byte{i64}, results: []byte{i64}, body: cat(lg(0), []byte{0xc3})},
		vProgram{name: "i64.extend32_s", params: []byte{i64}, results: []byte{i64}, body: cat(lg(0), []byte{0xc4})},
		vProgram{name: "i32.reinterpret", params: []byte{f32}, results: []byte{i32}, body: cat(lg(0), []byte{0xbc})},
		vProgram{name: "i64.reinterpret", params: []byte{f64}, results: []byte{i64}, body: cat(lg(0), []byte{0xbd})},
		vProgram{name: "f32.reinterpret", params: []byte{i32}, results: []byte{f32}, body: cat(lg(0), []byte{0xbe})},
		vProgram{name: "f64.reinterpret", params: []byte{i64}, results: []byte{f64}, body: cat(lg(0), []byte{0xbf})},
		vProgram{name: "select", params: []byte{i64, i64, i32}, results: []byte{i64}, body: cat(lg(0), lg(1), lg(2), []byte{0x1b})},
	)
}

// VerifC01_T1: every integer numeric instruction: optimised wazevo SSA == interpreter, for all operand values.
//verif:opts split=prog:71
func VerifC01_T1() {
	p := vT1[verifrt.Choose("prog", len(vT1))]
	vCompare(&p)
}

// T1c: binary integer instructions with a CONSTANT right (and left) operand: what constant folding, immediate operand
// selection and strength reduction see.
var vT1c = []vProgram{}

func i64const(v int64) []byte { return append([]byte{0x42}, leb128.EncodeInt64(v)...) }

func init() {
	c32 := []int32{0, 1, -1, 2, 31, 32, 0x7fffffff, -0x80000000}
	for _, op := range []byte{0x6a, 0x6b, 0x6c, 0x6d, 0x6e, 0x6f, 0x70, 0x71, 0x72, 0x73, 0x74, 0x75, 0x76, 0x77, 0x78, 0x48, 0x49} {
		for _, c := range c32 {
			vT1c = append(vT1c, vProgram{name: "i32.op-const", params: []byte{i32}, results: []byte{i32}, body: cat(lg(0), i32const(c), []byte{op})})
		}
		vT1c = append(vT1c, vProgram{name: "i32.const-op", params: []byte{i32}, results: []byte{i32}, body: cat(i32const(0), lg(0), []byte{op})})
	}
	// constant on the LEFT for every binary instruction
	for _, op := range []byte{0x6a, 0x6b, 0x6c, 0x6d, 0x6e, 0x6f, 0x70, 0x71, 0x72, 0x73, 0x74, 0x75, 0x76, 0x77, 0x78} {
		for _, c := range []int32{1, -1, 7} {
			vT1c = append(vT1c, vProgram{name: "i32.const-op", params: []byte{i32}, results: []byte{i32}, body: cat(i32const(c), lg(0), []byte{op})})
		}
	}
	for _, op := range []byte{0x7c, 0x7d, 0x7e, 0x7f, 0x80, 0x81, 0x82, 0x83, 0x84, 0x85, 0x86, 0x87, 0x88, 0x89, 0x8a} {
		for _, c := range []int64{0, -1, 7} {
			vT1c = append(vT1c, vProgram{name: "i64.const-op", params: []byte{i64}, results: []byte{i64}, body: cat(i64const(c), lg(0), []byte{op})})
		}
	}
	// every comparison with a constant on either side, consumed as a value, by select and by if (the three places a
	// compare-and-use is fused by the back end)
	type cmpFam struct {
		lo, hi byte
		t      byte
	}
	for _, fam := range []cmpFam{{0x46, 0x4f, i32}, {0x51, 0x5a, i64}} {
		for op := fam.lo; op <= fam.hi; op++ {
			for _, c := range []int64{0, 7, -1} {
				k := i32const(int32(c))
				if fam.t == i64 {
					k = i64const(c)
				}
				for side := 0; side < 2; side++ {
					cmp := cat(lg(0), k, []byte{op})
					if side == 1 {
						cmp = cat(k, lg(0), []byte{op})
					}
					vT1c = append(vT1c,
						vProgram{name: "cmp-const-value", params: []byte{fam.t}, results: []byte{i32}, body: cmp},
						vProgram{name: "cmp-const-select", params: []byte{fam.t}, results: []byte{i32}, body: cat(i32const(11), i32const(22), cmp, []byte{0x1b})},
						vProgram{name: "cmp-const-if", params: []byte{fam.t}, results: []byte{i32}, body: cat(cmp, []byte{0x04, 0x7f}, i32const(11), []byte{0x05}, i32const(22), []byte{0x0b})})
				}
			}
		}
	}
	c64 := []int64{0, 1, -1, 64, 0x7fffffff, 0x80000000, -0x8000000000000000}
	for _, op := range []byte{0x7c, 0x7d, 0x7e, 0x7f, 0x80, 0x81, 0x82, 0x86, 0x87, 0x88, 0x89} {
		for _, c := range c64 {
			vT1c = append(vT1c, vProgram{name: "i64.op-const", params: []byte{i64}, results: []byte{i64}, body: cat(lg(0), i64const(c), []byte{op})})
		}
	}
}

// VerifC01_T1c: constant-operand programs: optimised wazevo SSA == interpreter for all values of the other operand.
//verif:opts split=part:8
func VerifC01_T1c() {
	part := verifrt.Choose("part", 8)
	n := (len(vT1c) + 7) / 8
	i := part*n + verifrt.Choose("prog", n)
	if i >= len(vT1c) {
		verifrt.Assume(false)
	}
	p := vT1c[i]
	vCompare(&p)
}

//go:build verif

package frontend

import (
	"github.com/tetratelabs/wazero/internal/engine/interpreter"
	"github.com/tetratelabs/wazero/internal/leb128"
	"github.com/tetratelabs/wazero/internal/verifrt"
)

var vOffsets = []uint32{0, 1, 7, 8, 0xffff, 0x10000, 0x7fffffff, 0x80000000, 0xfffffff8, 0xffffffff}

// quick tier: the offsets around the interesting boundaries; thorough tier: all of vOffsets
var vOffsetsQuick = []uint32{0, 8, 0xffff, 0x80000000, 0xfffffff8}

func vOffs() []uint32 {
	if verifrt.Thorough() {
		return vOffsets
	}
	return vOffsetsQuick
}

func memarg(off uint32) []byte { return append([]byte{0x00}, leb128.EncodeUint32(off)...) }

func i32const(v int32) []byte { return append([]byte{0x41}, leb128.EncodeInt32(v)...) }

type vMemKind struct {
	op    byte
	store bool
	vt    byte
}

var vMemKinds = []vMemKind{
	{0x28, false, i32}, {0x29, false, i64}, {0x2c, false, i32}, {0x2d, false, i32}, {0x2e, false, i32}, {0x2f, false, i32},
	{0x30, false, i64}, {0x31, false, i64}, {0x32, false, i64}, {0x33, false, i64}, {0x34, false, i64}, {0x35, false, i64},
	{0x2a, false, f32}, {0x2b, false, f64},
	{0x36, true, i32}, {0x37, true, i64}, {0x3a, true, i32}, {0x3b, true, i32}, {0x3c, true, i64}, {0x3d, true, i64}, {0x3e, true, i64},
	{0x38, true, f32}, {0x39, true, f64},
}

// VerifC02_SSA_Single: every scalar load/store kind x boundary static offsets, base from a parameter, any memory size:
// the compiled SSA traps, reads and writes exactly like the interpreter, and never dereferences outside [0,size).
//verif:opts split=kind:23 obl-timeout=240000 wall=1500
func VerifC02_SSA_Single() {
	k := vMemKinds[verifrt.Choose("kind", len(vMemKinds))]
	offs := vOffs()
	off := offs[verifrt.Choose("offset", len(offs))]
	var p vProgram
	if k.store {
		p = vProgram{mem: true, params: []byte{i32, k.vt}, body: cat(lg(0), lg(1), []byte{k.op}, memarg(off))}
	} else {
		p = vProgram{mem: true, params: []byte{i32}, results: []byte{k.vt}, body: cat(lg(0), []byte{k.op}, memarg(off))}
	}
	vCompare(&p)
}

// helper function g(n): memory.grow(n) ; drop  (may move the memory)
var vGrowFn = interpreter.VerifFuncSpec{Params: []byte{i32}, Body: []byte{0x20, 0x00, 0x40, 0x00, 0x1a}}

// VerifC02_SSA_Reuse: several accesses on the SAME base value (what the bounds-check elision cache keys on), in every
// order of two boundary offsets, straight, across a call that may grow the memory, across memory.grow, and across an
// if/else join; plus memory.size / memory.grow results themselves.
//verif:opts split=shape:11 obl-timeout=240000 wall=1500
func VerifC02_SSA_Reuse() {
	shape := verifrt.Choose("shape", 11)
	offs := vOffs()
	if shape >= 8 {
		offs = vOffsetsQuick // the shapes with three independent offsets use the boundary set in both tiers (5^3 programs)
	}
	o1 := offs[verifrt.Choose("off1", len(offs))]
	o2 := offs[verifrt.Choose("off2", len(offs))]
	ld1 := cat(lg(0), []byte{0x2d}, memarg(o1)) // i32.load8_u base+o1
	ld2 := cat(lg(0), []byte{0x2d}, memarg(o2))
	ldw := cat(lg(0), []byte{0x28}, memarg(o2)) // i32.load (wider) base+o2
	var p vProgram
	switch shape {
	case 10: // the base is i32.wrap_i64 of an i64 parameter (any upper half), accessed in both arms of an if and after the join
		o3 := offs[verifrt.Choose("off3", len(offs))]
		w1 := cat(lg(2), []byte{0x2d}, memarg(o1))
		w2 := cat(lg(2), []byte{0x2d}, memarg(o2))
		w3 := cat(lg(2), []byte{0x2d}, memarg(o3))
		p = vProgram{mem: true, params: []byte{i64, i32}, locals: []byte{i32}, results: []byte{i32},
			body: cat(lg(0), []byte{0xa7, 0x21, 0x02}, lg(1), []byte{0x04, 0x7f}, w1, []byte{0x05}, w2, []byte{0x0b}, w3, []byte{0x6a})}
	case 8: // if c then load o1 end ; load o3 : a bound checked only in the arm must not cover the access after the join
		o3 := offs[verifrt.Choose("off3", len(offs))]
		ld3 := cat(lg(0), []byte{0x2d}, memarg(o3))
		p = vProgram{mem: true, params: []byte{i32, i32}, results: []byte{i32},
			body: cat(lg(1), []byte{0x04, 0x40}, ld1, []byte{0x1a, 0x0b}, ld3)}
	case 9: // if c then load o1 else load o2 end ; load o3 : after the join only the smaller of the two checked extents is known
		o3 := offs[verifrt.Choose("off3", len(offs))]
		ld3 := cat(lg(0), []byte{0x2d}, memarg(o3))
		p = vProgram{mem: true, params: []byte{i32, i32}, results: []byte{i32},
			body: cat(lg(1), []byte{0x04, 0x7f}, ld1, []byte{0x05}, ld2, []byte{0x0b}, ld3, []byte{0x6a})}
	case 0: // load ; load ; add
		p = vProgram{mem: true, params: []byte{i32}, results: []byte{i32}, body: cat(ld1, ld2, []byte{0x6a})}
	case 1: // narrow then wide on the same base
		p = vProgram{mem: true, params: []byte{i32}, results: []byte{i32}, body: cat(ld1, ldw, []byte{0x6a})}
	case 2: // load ; call g(n) ; load
		p = vProgram{mem: true, params: []byte{i32, i32}, results: []byte{i32}, body: cat(ld1, lg(1), []byte{0x10, 0x01}, ld2, []byte{0x6a}),
			extra: []interpreter.VerifFuncSpec{vGrowFn}}
	case 3: // load ; memory.grow(n) ; load ; add ; add
		p = vProgram{mem: true, params: []byte{i32, i32}, results: []byte{i32}, body: cat(ld1, lg(1), []byte{0x40, 0x00}, ld2, []byte{0x6a, 0x6a})}
	case 4: // store base+o1 ; load base+o2
		p = vProgram{mem: true, params: []byte{i32, i32}, results: []byte{i32}, body: cat(lg(0), lg(1), []byte{0x3a}, memarg(o1), ld2)}
	case 5: // if c then load o1 else load o2 end ; load o2 ; add
		p = vProgram{mem: true, params: []byte{i32, i32}, results: []byte{i32},
			body: cat(lg(1), []byte{0x04, 0x7f}, ld1, []byte{0x05}, ld2, []byte{0x0b}, ld2, []byte{0x6a})}
	case 6: // constant base bound to a local: local.set 1 (i32.const C) ; load [l1+o1] ; call g ; load [l1+o2]
		c := int32(offs[verifrt.Choose("cbase", len(offs))])
		l1a := cat(lg(1), []byte{0x2d}, memarg(o1))
		l1b := cat(lg(1), []byte{0x2d}, memarg(o2))
		p = vProgram{mem: true, params: []byte{i32}, locals: []byte{i32}, results: []byte{i32},
			body: cat(i32const(c), []byte{0x21, 0x01}, l1a, lg(0), []byte{0x10, 0x01}, l1b, []byte{0x6a}), extra: []interpreter.VerifFuncSpec{vGrowFn}}
	case 7: // memory.size ; memory.grow(n) ; memory.size : three results
		p = vProgram{mem: true, params: []byte{i32}, results: []byte{i32, i32, i32}, body: cat([]byte{0x3f, 0x00}, lg(0), []byte{0x40, 0x00}, []byte{0x3f, 0x00})}
	}
	vCompare(&p)
}

// VerifC14_SSA_Size: memory.size / memory.grow(n) / memory.size compiled by the front end agree with the interpreter for
// every current size 0..65536 pages and every delta (results and final size).
func VerifC14_SSA_Size() {
	p := vProgram{mem: true, params: []byte{i32}, results: []byte{i32, i32, i32}, body: cat([]byte{0x3f, 0x00}, lg(0), []byte{0x40, 0x00}, []byte{0x3f, 0x00})}
	vCompare(&p)
}

// The same families as indexed program lists (used by the machine-level harness).
func vT2Single(offs []uint32) []vProgram {
	var out []vProgram
	for _, k := range vMemKinds {
		for _, off := range offs {
			if k.store {
				out = append(out, vProgram{name: "store", mem: true, params: []byte{i32, k.vt}, body: cat(lg(0), lg(1), []byte{k.op}, memarg(off))})
			} else {
				out = append(out, vProgram{name: "load", mem: true, params: []byte{i32}, results: []byte{k.vt}, body: cat(lg(0), []byte{k.op}, memarg(off))})
			}
		}
	}
	return out
}

func vT2Reuse(offs []uint32) []vProgram {
	var out []vProgram
	for _, o1 := range offs {
		for _, o2 := range offs {
			ld1 := cat(lg(0), []byte{0x2d}, memarg(o1))
			ld2 := cat(lg(0), []byte{0x2d}, memarg(o2))
			ldw := cat(lg(0), []byte{0x28}, memarg(o2))
			out = append(out,
				vProgram{name: "ld-ld", mem: true, params: []byte{i32}, results: []byte{i32}, body: cat(ld1, ld2, []byte{0x6a})},
				vProgram{name: "narrow-wide", mem: true, params: []byte{i32}, results: []byte{i32}, body: cat(ld1, ldw, []byte{0x6a})},
				vProgram{name: "ld-call-ld", mem: true, params: []byte{i32, i32}, results: []byte{i32}, body: cat(ld1, lg(1), []byte{0x10, 0x01}, ld2, []byte{0x6a}), extra: []interpreter.VerifFuncSpec{vGrowFn}},
				vProgram{name: "ld-grow-ld", mem: true, params: []byte{i32, i32}, results: []byte{i32}, body: cat(ld1, lg(1), []byte{0x40, 0x00}, ld2, []byte{0x6a, 0x6a})},
				vProgram{name: "st-ld", mem: true, params: []byte{i32, i32}, results: []byte{i32}, body: cat(lg(0), lg(1), []byte{0x3a}, memarg(o1), ld2)},
				vProgram{name: "if-join", mem: true, params: []byte{i32, i32}, results: []byte{i32}, body: cat(lg(1), []byte{0x04, 0x7f}, ld1, []byte{0x05}, ld2, []byte{0x0b}, ld2, []byte{0x6a})},
			)
			for _, o3 := range offs {
				ld3 := cat(lg(0), []byte{0x2d}, memarg(o3))
				out = append(out,
					vProgram{name: "if-noelse-then-wider", mem: true, params: []byte{i32, i32}, results: []byte{i32},
						body: cat(lg(1), []byte{0x04, 0x40}, ld1, []byte{0x1a, 0x0b}, ld3)},
					vProgram{name: "if-else-join-third", mem: true, params: []byte{i32, i32}, results: []byte{i32},
						body: cat(lg(1), []byte{0x04, 0x7f}, ld1, []byte{0x05}, ld2, []byte{0x0b}, ld3, []byte{0x6a})},
					vProgram{name: "wrap-base-join", mem: true, params: []byte{i64, i32}, locals: []byte{i32}, results: []byte{i32},
						body: cat(lg(0), []byte{0xa7, 0x21, 0x02}, lg(1), []byte{0x04, 0x7f}, cat(lg(2), []byte{0x2d}, memarg(o1)), []byte{0x05},
							cat(lg(2), []byte{0x2d}, memarg(o2)), []byte{0x0b}, cat(lg(2), []byte{0x2d}, memarg(o3)), []byte{0x6a})})
			}
			for _, cb := range offs {
				l1a := cat(lg(1), []byte{0x2d}, memarg(o1))
				l1b := cat(lg(1), []byte{0x2d}, memarg(o2))
				out = append(out, vProgram{name: "const-base-call", mem: true, params: []byte{i32}, locals: []byte{i32}, results: []byte{i32},
					body: cat(i32const(int32(cb)), []byte{0x21, 0x01}, l1a, lg(0), []byte{0x10, 0x01}, l1b, []byte{0x6a}), extra: []interpreter.VerifFuncSpec{vGrowFn}})
			}
		}
	}
	out = append(out, vProgram{name: "size-grow-size", mem: true, params: []byte{i32}, results: []byte{i32, i32, i32}, body: cat([]byte{0x3f, 0x00}, lg(0), []byte{0x40, 0x00}, []byte{0x3f, 0x00})})
	return out
}

//go:build verif

package frontend

import (
	"github.com/tetratelabs/wazero/internal/engine/interpreter"
	"github.com/tetratelabs/wazero/internal/verifrt"
)

// VerifC12_SSA_DecodeConfig: the compilation cache key (wasm.Module.ID = SHA-256 of the binary + listener presence +
// termination flag) does not cover the decode-time options memory-capacity-from-max, DWARF and custom sections, and a
// cached entry compiled under one setting is handed to runtimes with another. So the code the front end produces under
// EVERY setting of those options must be correct in the most general instance: a memory whose base moves whenever it
// grows (directly or in a callee). Programs: accesses before and after a grow, in every shape the base/length cache of
// the front end distinguishes. Compared with the interpreter for all arguments, memory sizes and contents.
//verif:opts split=shape:6 obl-timeout=240000 wall=1500
func VerifC12_SSA_DecodeConfig() {
	ld := func(local byte, off uint32) []byte { return cat(lg(local), []byte{0x2d}, memarg(off)) } // i32.load8_u
	st := func(addr, val byte, off uint32) []byte { return cat(lg(addr), lg(val), []byte{0x3a}, memarg(off)) }
	var p vProgram
	switch verifrt.Choose("shape", 6) {
	case 0: // store ; memory.grow(n) ; drop ; store ; load
		p = vProgram{params: []byte{i32, i32, i32}, results: []byte{i32},
			body: cat(st(0, 1, 0), lg(2), []byte{0x40, 0x00, 0x1a}, st(0, 1, 1), ld(0, 1))}
	case 1: // load ; memory.grow(n) ; load ; add ; add
		p = vProgram{params: []byte{i32, i32}, results: []byte{i32}, body: cat(ld(0, 0), lg(1), []byte{0x40, 0x00}, ld(0, 8), []byte{0x6a, 0x6a})}
	case 2: // load ; call g(n) (grows) ; store ; load
		p = vProgram{params: []byte{i32, i32, i32}, results: []byte{i32},
			body: cat(ld(0, 0), lg(1), []byte{0x10, 0x01}, st(0, 2, 8), ld(0, 8), []byte{0x6a}), extra: []interpreter.VerifFuncSpec{vGrowFn}}
	case 3: // memory.size ; memory.grow(n) ; memory.size
		p = vProgram{params: []byte{i32}, results: []byte{i32, i32, i32}, body: cat([]byte{0x3f, 0x00}, lg(0), []byte{0x40, 0x00}, []byte{0x3f, 0x00})}
	case 4: // grow in one arm of an if, access after the join
		p = vProgram{params: []byte{i32, i32, i32}, results: []byte{i32},
			body: cat(ld(0, 0), lg(1), []byte{0x04, 0x40}, lg(2), []byte{0x40, 0x00, 0x1a, 0x0b}, ld(0, 4), []byte{0x6a})}
	case 5: // access in a loop whose body grows the memory (n <= 2 iterations)
		p = vProgram{params: []byte{i32, i32}, locals: []byte{i32}, results: []byte{i32},
			body: cat([]byte{0x03, 0x40}, lg(2), ld(0, 0), []byte{0x6a, 0x21, 0x02}, i32const(1), []byte{0x40, 0x00, 0x1a},
				lg(1), i32const(1), []byte{0x6b, 0x22, 0x01}, []byte{0x0d, 0x00, 0x0b}, lg(2))}
		n := uint32(verifrt.U64("a1"))
		verifrt.Assume(n >= 1 && n <= 2)
	}
	p.mem = true
	// a small declared maximum keeps this harness away from the (separately recorded) 4 GiB length finding; with
	// capacity-from-max the decoded module has Cap == Max
	p.memMax = 8
	p.capFromMax = verifrt.Choose("capFromMax", 2) == 1
	p.dwarf = verifrt.Choose("dwarf", 2) == 1
	p.customSections = verifrt.Choose("customSections", 2) == 1
	vCompare(&p)
}

//go:build verif

package leb128

import (
	"bytes"

	"github.com/tetratelabs/wazero/internal/verifrt"
)

// arbitrary buffer of 0..11 bytes (one more than the longest encoding)
func verifBuf() []byte {
	n := verifrt.Choose("len", 12)
	return verifrt.Bytes("buf", uint64(n))
}

// refUnsigned: position of the terminating byte within max bytes (or -1) and the value as a 70-bit
// quantity split in low 64 bits and the bits above.
func refUnsigned(buf []byte, max int) (k int, lo uint64, hi uint64) {
	k = -1
	for i := 0; i < max && i < len(buf); i++ {
		g := uint64(buf[i] & 0x7f)
		if 7*i < 64 {
			lo |= g << (7 * uint(i))
		}
		if 7*i+7 > 64 { // bits of this group at or above bit 64
			hi |= g >> (64 - 7*uint(i))
		}
		if buf[i]&0x80 == 0 {
			return i, lo, hi
		}
	}
	return -1, 0, 0
}

// VerifC03_LoadUint32: total on any buffer; accepted iff terminated within 5 bytes and the value fits 32 bits.
func VerifC03_LoadUint32() {
	buf := verifBuf()
	v, n, err := LoadUint32(buf)
	k, lo, _ := refUnsigned(buf, 5)
	wantOK := k >= 0 && lo < 1<<32
	verifrt.Assert((err == nil) == wantOK, "LoadUint32 accepts iff terminated within 5 bytes and value < 2^32")
	if err == nil {
		verifrt.Assert(uint64(v) == lo, "LoadUint32 value")
		verifrt.Assert(n == uint64(k)+1 && n <= uint64(len(buf)) && n <= 5, "LoadUint32 bytesRead")
		verifrt.Cover("accepted")
	} else {
		verifrt.Assert(v == 0 && n == 0, "LoadUint32 error returns zeros")
		verifrt.Cover("rejected")
	}
}

// VerifC03_DecodeUint32: the io.ByteReader form agrees with the buffer form.
func VerifC03_DecodeUint32() {
	buf := verifBuf()
	v, n, err := DecodeUint32(bytes.NewReader(buf))
	v2, n2, err2 := LoadUint32(buf)
	verifrt.Assert((err == nil) == (err2 == nil) && v == v2 && n == n2, "DecodeUint32 agrees with LoadUint32")
	verifrt.Cover("done")
}

// VerifC03_LoadUint64: accepted iff terminated within 10 bytes and the value fits 64 bits.
func VerifC03_LoadUint64() {
	buf := verifBuf()
	v, n, err := LoadUint64(buf)
	k, lo, hi := refUnsigned(buf, 10)
	wantOK := k >= 0 && hi == 0
	verifrt.Assert((err == nil) == wantOK, "LoadUint64 accepts iff terminated within 10 bytes and value < 2^64")
	if err == nil {
		verifrt.Assert(v == lo, "LoadUint64 value")
		verifrt.Assert(n == uint64(k)+1 && n <= uint64(len(buf)) && n <= 10, "LoadUint64 bytesRead")
		verifrt.Cover("accepted")
	} else {
		verifrt.Assert(v == 0 && n == 0, "LoadUint64 error returns zeros")
		verifrt.Cover("rejected")
	}
}

// refSigned: terminating byte position within the whole buffer and the sign-extended value truncated to 64 bits.
func refSigned(buf []byte) (k int, val int64) {
	var lo uint64
	for i := 0; i < len(buf); i++ {
		g := uint64(buf[i] & 0x7f)
		if 7*i < 64 {
			lo |= g << (7 * uint(i))
		}
		if buf[i]&0x80 == 0 {
			if 7*i+7 < 64 && buf[i]&0x40 != 0 {
				lo |= ^uint64(0) << (7*uint(i) + 7)
			}
			return i, int64(lo)
		}
	}
	return -1, 0
}

// VerifC03_LoadInt32: total; an accepted encoding has at most 5 bytes, yields the sign-extended value, and
// every value in range with a terminator within 5 bytes whose unused bits are a proper sign extension is accepted.
func VerifC03_LoadInt32() {
	buf := verifBuf()
	v, n, err := LoadInt32(buf)
	k, ref := refSigned(buf)
	if err == nil {
		verifrt.Assert(k >= 0 && n == uint64(k)+1 && n <= 5 && n <= uint64(len(buf)), "LoadInt32 bytesRead")
		verifrt.Assert(int64(v) == int64(int32(ref)), "LoadInt32 value is the sign-extended payload")
		verifrt.Cover("accepted")
	} else {
		verifrt.Assert(v == 0 && n == 0, "LoadInt32 error returns zeros")
		// must not reject a well-formed encoding of an in-range value
		wellFormed := k >= 0 && k < 5 && ref >= -(1<<31) && ref < 1<<31
		if k == 4 {
			top := buf[4] & 0x7f
			wellFormed = wellFormed && (top>>3 == 0 || top>>3 == 0xf) // bits 31..34 all equal
		}
		verifrt.Assert(!wellFormed, "LoadInt32 accepts every well-formed in-range encoding")
		verifrt.Cover("rejected")
	}
}

// VerifC03_LoadInt64
func VerifC03_LoadInt64() {
	buf := verifBuf()
	v, n, err := LoadInt64(buf)
	k, ref := refSigned(buf)
	if err == nil {
		verifrt.Assert(k >= 0 && n == uint64(k)+1 && n <= 10 && n <= uint64(len(buf)), "LoadInt64 bytesRead")
		verifrt.Assert(v == ref, "LoadInt64 value is the sign-extended payload")
		verifrt.Cover("accepted")
	} else {
		verifrt.Assert(v == 0 && n == 0, "LoadInt64 error returns zeros")
		wellFormed := k >= 0 && k < 10
		if k == 9 {
			top := buf[9] & 0x7f
			wellFormed = top == 0 || top == 0x7f
		}
		verifrt.Assert(!wellFormed, "LoadInt64 accepts every well-formed encoding")
		verifrt.Cover("rejected")
	}
}

// VerifC03_DecodeInt33: block-type immediates.
func VerifC03_DecodeInt33() {
	buf := verifBuf()
	v, n, err := DecodeInt33AsInt64(bytes.NewReader(buf))
	k, ref := refSigned(buf)
	if err == nil {
		verifrt.Assert(n <= 5 && n <= uint64(len(buf)), "DecodeInt33 bytesRead bounded")
		verifrt.Assert(v >= -(1<<32) && v < 1<<32, "DecodeInt33 result is a 33-bit value")
		if k >= 0 && k < 5 {
			verifrt.Assert(n == uint64(k)+1, "DecodeInt33 consumes through the terminator")
			// sign-extended 33-bit truncation of the payload
			t := ref & (1<<33 - 1)
			if t&(1<<32) != 0 {
				t -= 1 << 33
			}
			verifrt.Assert(v == t, "DecodeInt33 value")
		}
		verifrt.Cover("accepted")
	} else {
		verifrt.Cover("rejected")
	}
}

// VerifC03_RoundTripU32 / U64 / I32 / I64: every value's canonical encoding is accepted and decodes to itself.
func VerifC03_RoundTripU32() {
	x := verifrt.U32("x")
	e := EncodeUint32(x)
	v, n, err := LoadUint32(e)
	verifrt.Assert(err == nil && v == x && n == uint64(len(e)) && len(e) <= 5, "LoadUint32(EncodeUint32(x)) == x")
	verifrt.Cover("done")
}

func VerifC03_RoundTripU64() {
	x := verifrt.U64("x")
	e := EncodeUint64(x)
	v, n, err := LoadUint64(e)
	verifrt.Assert(err == nil && v == x && n == uint64(len(e)) && len(e) <= 10, "LoadUint64(EncodeUint64(x)) == x")
	verifrt.Cover("done")
}

func VerifC03_RoundTripI32() {
	x := verifrt.I32("x")
	e := EncodeInt32(x)
	v, n, err := LoadInt32(e)
	verifrt.Assert(err == nil && v == x && n == uint64(len(e)) && len(e) <= 5, "LoadInt32(EncodeInt32(x)) == x")
	verifrt.Cover("done")
}

func VerifC03_RoundTripI64() {
	x := verifrt.I64("x")
	e := EncodeInt64(x)
	v, n, err := LoadInt64(e)
	verifrt.Assert(err == nil && v == x && n == uint64(len(e)) && len(e) <= 10, "LoadInt64(EncodeInt64(x)) == x")
	verifrt.Cover("done")
}

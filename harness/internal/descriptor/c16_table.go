//go:build verif

package descriptor

import "github.com/tetratelabs/wazero/internal/verifrt"

// An arbitrary table of 0..2 mask words (0..128 slots) with arbitrary occupancy and items.
func verifTable() (*Table[int32, uint64], []uint64, []uint64, int) {
	n := verifrt.Choose("nmasks", 3)
	masks := verifrt.Words("mask", uint64(n))
	items := verifrt.Words("item", uint64(n)*64)
	preM := append([]uint64(nil), masks...)
	preI := append([]uint64(nil), items...)
	return &Table[int32, uint64]{masks: masks, items: items}, preM, preI, n
}

func bitOf(masks []uint64, k int32) bool {
	if k < 0 || int(k)/64 >= len(masks) {
		return false
	}
	return masks[k/64]&(1<<(uint(k)%64)) != 0
}

func itemOf(items []uint64, k int32) uint64 {
	if k < 0 || int(k) >= len(items) {
		return 0
	}
	return items[k]
}

// VerifC16_TableInsert: Insert returns the lowest free key and changes nothing else.
func VerifC16_TableInsert() {
	t, preM, preI, n := verifTable()
	item := verifrt.U64("new")
	key, ok := t.Insert(item)
	verifrt.Assert(ok && key >= 0 && int(key) < 64*(n+1), "Insert succeeds with a key inside the (possibly grown) table")
	verifrt.Assert(!bitOf(preM, key), "Insert returns a key that was free")
	j := verifrt.I32("j")
	verifrt.Assume(j >= 0 && int(j) < 64*(n+1))
	if j < key {
		verifrt.Assert(bitOf(preM, j), "Insert returns the lowest free key (every smaller key was in use)")
		verifrt.Cover("below")
	}
	got, found := t.Lookup(key)
	verifrt.Assert(found && got == item, "Lookup finds the inserted item")
	if j != key {
		g, f := t.Lookup(j)
		verifrt.Assert(f == bitOf(preM, j) && (!f || g == itemOf(preI, j)), "Insert leaves every other key unchanged")
		verifrt.Cover("other")
	}
	if n > 0 && int(key) >= 64*n {
		verifrt.Cover("grown")
	}
}

// VerifC16_TableLookupDelete: Lookup reflects occupancy for every key; Delete removes exactly one key.
func VerifC16_TableLookupDelete() {
	t, preM, preI, _ := verifTable()
	key := verifrt.I32("key")
	got, found := t.Lookup(key)
	verifrt.Assert(found == bitOf(preM, key), "Lookup finds a key iff it is in use (any int32 key)")
	verifrt.Assert(!found || got == itemOf(preI, key), "Lookup returns the stored item")
	t.Delete(key)
	_, found = t.Lookup(key)
	verifrt.Assert(!found, "a deleted key is not found")
	j := verifrt.I32("j")
	if j != key {
		g, f := t.Lookup(j)
		verifrt.Assert(f == bitOf(preM, j) && (!f || g == itemOf(preI, j)), "Delete leaves every other key unchanged")
		verifrt.Cover("other")
	}
}

// VerifC16_TableInsertAt: InsertAt stores at exactly the given key (keys bounded to one word of growth here;
// unbounded keys are C15's allocation obligation).
func VerifC16_TableInsertAt() {
	t, preM, preI, n := verifTable()
	key := verifrt.I32("key")
	verifrt.Assume(int(key) < 64*(n+1))
	item := verifrt.U64("new")
	ok := t.InsertAt(item, key)
	verifrt.Assert(ok == (key >= 0), "InsertAt accepts exactly the non-negative keys")
	if ok {
		g, f := t.Lookup(key)
		verifrt.Assert(f && g == item, "Lookup finds the item stored by InsertAt")
		verifrt.Cover("stored")
	}
	j := verifrt.I32("j")
	if j != key || !ok {
		g, f := t.Lookup(j)
		verifrt.Assert(f == bitOf(preM, j) && (!f || g == itemOf(preI, j)), "InsertAt leaves every other key unchanged")
		verifrt.Cover("other")
	}
}


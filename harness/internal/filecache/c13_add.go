//go:build verif

package filecache

import (
	"errors"
	"io"
	"os"

	"github.com/tetratelabs/wazero/internal/verifrt"
)

// verifContent is the entry being added: delivered to the file in 1 or 2 writes, optionally failing after the first.
type verifContent struct {
	data      []byte
	chunks    int
	failAfter bool
	pos       int
}

var errVerifRead = errors.New("content reader failed")

func (c *verifContent) Read(p []byte) (int, error) {
	if c.pos >= len(c.data) {
		return 0, io.EOF
	}
	n := copy(p, c.data[c.pos:])
	c.pos += n
	return n, nil
}

func (c *verifContent) WriteTo(w io.Writer) (int64, error) {
	cut := len(c.data)
	if c.chunks == 2 {
		cut = len(c.data) / 2
	}
	n, err := w.Write(c.data[:cut])
	if err != nil {
		return int64(n), err
	}
	if c.failAfter {
		return int64(n), errVerifRead
	}
	if cut < len(c.data) {
		n2, err := w.Write(c.data[cut:])
		return int64(n + n2), err
	}
	return int64(n), nil
}

func verifSameBytes(a, b []byte) bool {
	if len(a) != len(b) {
		return false
	}
	same := true
	for i := range a {
		same = verifrt.And(same, a[i] == b[i])
	}
	return same
}

// VerifC13_AddCrash: the real fileCache.Add runs against a model of the file system in which every operation that
// changes what a later process would find (create, write, sync, close, rename, remove) is a step. For every content of
// 0..4 symbolic bytes delivered in one or two writes, every prior state of the directory (no entry / a complete older
// entry / a temp file left by an earlier crash), every single failing step (with a short write) or a failing content
// reader, and a crash before EVERY step or after return: the final name holds either nothing, the complete older entry,
// or the complete new entry - never a partial one; when Add reports success the final name holds the complete new entry
// and Get returns it; Delete afterwards removes it.
//verif:opts split=crash:10 wall=900
func VerifC13_AddCrash() {
	fsm := verifrt.ModelFSReset()
	fc := newFileCache("/cache")
	key := Key{1, 2, 3}
	final := fc.path(key)
	n := verifrt.Choose("len", 5)
	bits := verifrt.U64("content")
	content := make([]byte, n)
	for i := range content {
		content[i] = byte(bits >> (8 * i))
	}
	old := []byte{byte(verifrt.U8("old0")), byte(verifrt.U8("old1"))}
	prior := verifrt.Choose("prior", 3)
	switch prior {
	case 1:
		fsm.Files[final] = &verifrt.MInode{Data: append([]byte(nil), old...)}
	case 2:
		fsm.Files[final+".r0.tmp"] = &verifrt.MInode{Data: []byte{9}}
	}
	rd := &verifContent{data: content, chunks: 1 + verifrt.Choose("chunks", 2), failAfter: verifrt.Choose("readerFails", 2) == 1}
	fsm.FailAt = verifrt.Choose("failAt", 8) - 1
	crash := verifrt.Choose("crash", 10) // the step before which the process dies; 9: it does not die
	if !verifrt.Symbolic() {
		verifNativeCheck(verifNativeCase{content: content, old: old, prior: prior, chunks: rd.chunks, readerFails: rd.failAfter, failAt: fsm.FailAt, crash: crash})
		return
	}
	visible := func() bool {
		ino, ok := fsm.Files[final]
		if !ok {
			return true
		}
		return verifrt.Or(prior == 1 && verifSameBytes(ino.Data, old), verifSameBytes(ino.Data, content))
	}
	crashed := false
	fsm.OnStep = func(step int, op string) {
		if step == crash {
			crashed = true
			verifrt.Assert(visible(), "if the process dies while adding an entry, a later process finds no entry or a complete one under the final name")
		}
	}
	err := fc.Add(key, rd)
	fsm.OnStep, fsm.FailAt = nil, -1
	if crash < 9 && !crashed {
		verifrt.Assume(false) // Add performed fewer steps than the chosen crash point
	}
	verifrt.Assert(visible(), "after Add returns, the final name holds no entry or a complete one")
	if err == nil {
		ino, ok := fsm.Files[final]
		verifrt.Assert(ok && verifSameBytes(ino.Data, content), "when Add reports success the complete new entry is visible under the final name")
		r, found, gerr := fc.Get(key)
		verifrt.Assert(found, "Get finds the entry that was added")
		verifrt.Assert(gerr == nil, "Get reports no error for an existing entry")
		verifrt.Assert(r != nil, "Get returns a reader for an existing entry")
		if found && gerr == nil && r != nil {
			got, rerr := io.ReadAll(r)
			verifrt.Assert(rerr == nil && verifSameBytes(got, content), "Get returns exactly the content that was added")
		}
		verifrt.Assert(fc.Delete(key) == nil, "Delete of an existing entry succeeds")
		_, found, gerr = fc.Get(key)
		verifrt.Assert(!found && gerr == nil, "a deleted entry is not found")
		verifrt.Cover("added")
	} else {
		verifrt.Cover("failed")
	}
	if crashed {
		verifrt.Cover("crash-point")
	}
}

// verifInterleaved is a content that, between its two writes, lets another writer run.
type verifInterleaved struct {
	data  []byte
	inner func()
}

func (c *verifInterleaved) Read(p []byte) (int, error) { return 0, io.EOF }
func (c *verifInterleaved) WriteTo(w io.Writer) (int64, error) {
	half := len(c.data) / 2
	n, err := w.Write(c.data[:half])
	if err != nil {
		return int64(n), err
	}
	if c.inner != nil {
		c.inner()
	}
	n2, err := w.Write(c.data[half:])
	return int64(n + n2), err
}

type verifDies struct{}

// VerifC13_ConcurrentWriters: two writers of the SAME key whose Add calls overlap: writer B runs while writer A is between
// its two writes - B either completes, or dies after its first write, or its content reader fails. Whatever happens,
// the final name afterwards holds no entry or the COMPLETE content of one of the two writers (never a mixture), and if A
// reports success an entry is there.
func VerifC13_ConcurrentWriters() {
	dir := "/cache"
	if verifrt.Symbolic() {
		verifrt.ModelFSReset()
	} else {
		d, err := os.MkdirTemp("", "verifc13w")
		if err != nil {
			panic(err)
		}
		defer os.RemoveAll(d)
		dir = d
	}
	fc := newFileCache(dir)
	key := Key{1, 2, 3}
	ba, bb := verifrt.U32("contentA"), verifrt.U32("contentB")
	cA := []byte{byte(ba), byte(ba >> 8), byte(ba >> 16), byte(ba >> 24)}
	cB := []byte{byte(bb), byte(bb >> 8), byte(bb >> 16)} // a different length as well
	fateB := verifrt.Choose("fateB", 3)                    // 0 completes, 1 dies after its first write, 2 its reader fails
	var errB error
	inner := func() {
		defer func() {
			if r := recover(); r != nil {
				if _, ok := r.(verifDies); !ok {
					panic(r)
				}
			}
		}()
		rb := &verifInterleaved{data: cB}
		switch fateB {
		case 1:
			rb.inner = func() { panic(verifDies{}) }
		case 2:
			errB = fc.Add(key, &verifContent{data: cB, chunks: 2, failAfter: true})
			return
		}
		errB = fc.Add(key, rb)
	}
	errA := fc.Add(key, &verifInterleaved{data: cA, inner: inner})
	_ = errB
	r, found, gerr := fc.Get(key)
	verifrt.Assert(gerr == nil, "Get reports no error")
	if errA == nil {
		verifrt.Assert(found, "when a writer reports success an entry is visible")
	}
	if found && gerr == nil {
		got, rerr := io.ReadAll(r)
		_ = r.Close()
		verifrt.Assert(rerr == nil && verifrt.Or(verifSameBytes(got, cA), verifSameBytes(got, cB)), "with concurrent writers of one key the visible entry is the complete content of one of them")
	}
	verifrt.Cover("overlapped")
}

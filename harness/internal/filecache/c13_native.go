//go:build verif

package filecache

// Native replay of VerifC13_AddCrash: the real fileCache.Add runs in a child process (this test binary re-executed) on a
// real temporary directory under strace; "the process dies before step k" is a SIGKILL injected at the k-th system call
// that changes the directory (create, write, fsync, close, rename, unlink), "step j fails" is an injected EIO.

import (
	"fmt"
	"os"
	"os/exec"
	"path/filepath"
	"regexp"
	"runtime"
	"strconv"
	"strings"

	"github.com/tetratelabs/wazero/internal/verifrt"
)

type verifNativeCase struct {
	content, old []byte
	prior        int
	chunks       int
	readerFails  bool
	failAt       int // -1: none
	crash        int // 9: none
}

const verifChildEnv = "VERIF_C13_CHILD"

// verifChildMain is what the re-executed binary does: only the Add, then a one-line report.
func verifChildMain(dir string, c verifNativeCase) {
	runtime.LockOSThread()
	fc := newFileCache(dir)
	err := fc.Add(Key{1, 2, 3}, &verifContent{data: c.content, chunks: c.chunks, failAfter: c.readerFails})
	if err == nil {
		_ = os.WriteFile(filepath.Join(dir, "..", "child-ok"), nil, 0o600)
	} else {
		_ = os.WriteFile(filepath.Join(dir, "..", "child-err"), []byte(err.Error()), 0o600)
	}
	os.Exit(0)
}

type verifSyscall struct {
	tid, name string
	ordinal   int // 1-based count of this syscall name on this thread
}

var verifLine = regexp.MustCompile(`^(\d+)\s+(\w+)\((.*)`)

// verifFSCalls extracts, in order, the system calls of a trace that change the cache directory.
func verifFSCalls(trace, dir string) []verifSyscall {
	var out []verifSyscall
	counts := map[string]int{}
	fds := map[string]bool{} // tid-independent: file descriptors opened for writing in dir
	for _, ln := range strings.Split(trace, "\n") {
		m := verifLine.FindStringSubmatch(ln)
		if m == nil {
			continue
		}
		tid, name, rest := m[1], m[2], m[3]
		if strings.Contains(ln, "<unfinished") && !strings.Contains(ln, "+++") {
			// counted when it was entered; a resumed line is not a new call
		}
		if strings.HasPrefix(rest, "<... ") {
			continue
		}
		counts[tid+"/"+name]++
		ord := counts[tid+"/"+name]
		rel := false
		switch name {
		case "openat", "creat", "open":
			if strings.Contains(rest, dir) && strings.Contains(rest, "O_CREAT") {
				rel = true
				if i := strings.LastIndex(ln, "= "); i >= 0 {
					if fd, err := strconv.Atoi(strings.TrimSpace(ln[i+2:])); err == nil && fd >= 0 {
						fds[strconv.Itoa(fd)] = true
					}
				}
			}
		case "write", "pwrite64", "fsync", "fdatasync", "close":
			fd := rest
			if i := strings.IndexAny(fd, ",)"); i >= 0 {
				fd = fd[:i]
			}
			if fds[fd] {
				rel = true
				if name == "close" {
					delete(fds, fd)
				}
			}
		case "rename", "renameat", "renameat2", "unlink", "unlinkat", "link", "linkat":
			rel = strings.Contains(rest, dir)
		}
		if rel {
			out = append(out, verifSyscall{tid: tid, name: name, ordinal: ord})
		}
	}
	return out
}

func verifPrepareDir(c verifNativeCase) (root, dir string) {
	root, err := os.MkdirTemp("", "verifc13")
	if err != nil {
		panic(err)
	}
	dir = filepath.Join(root, "cache")
	if err = os.Mkdir(dir, 0o700); err != nil {
		panic(err)
	}
	final := newFileCache(dir).path(Key{1, 2, 3})
	switch c.prior {
	case 1:
		_ = os.WriteFile(final, c.old, 0o600)
	case 2:
		_ = os.WriteFile(final+".r0.tmp", []byte{9}, 0o600)
	}
	return
}

const verifTraced = "openat,open,creat,write,pwrite64,fsync,fdatasync,close,rename,renameat,renameat2,unlink,unlinkat,link,linkat"

func verifRunChild(dir, trace string, inject []string) {
	args := []string{"-f", "-o", trace, "-e", "trace=" + verifTraced}
	for _, i := range inject {
		args = append(args, "-e", "inject="+i)
	}
	args = append(args, os.Args[0], "-test.run=^TestVerifReplay$", "-test.count=1")
	cmd := exec.Command("strace", args...)
	cmd.Env = append(os.Environ(), verifChildEnv+"="+dir)
	_ = cmd.Run() // a killed child is an expected outcome
}

// verifNative replays one case and reports: the content under the final name afterwards (nil: absent), whether Add
// returned and with which error text ("" = success), and whether the requested crash/fault could be placed.
func verifNative(c verifNativeCase) (finalData []byte, present bool, returned bool, addErr string, placed bool) {
	// phase 1: an undisturbed run gives the sequence of directory-changing system calls
	root1, dir1 := verifPrepareDir(c)
	defer os.RemoveAll(root1)
	trace1 := filepath.Join(root1, "trace")
	verifRunChild(dir1, trace1, nil)
	raw, _ := os.ReadFile(trace1)
	calls := verifFSCalls(string(raw), dir1)
	var inject []string
	if c.failAt >= 0 {
		if c.failAt >= len(calls) {
			return nil, false, false, "", false
		}
		k := calls[c.failAt]
		inject = append(inject, fmt.Sprintf("%s:error=EIO:when=%d", k.name, k.ordinal))
	}
	if c.crash < 9 {
		// with a fault injected the later sequence may differ from phase 1; the crash is placed on the undisturbed
		// sequence only when it does not come after the fault
		if c.crash >= len(calls) || (c.failAt >= 0 && c.crash > c.failAt) {
			return nil, false, false, "", false
		}
		k := calls[c.crash]
		inject = append(inject, fmt.Sprintf("%s:signal=SIGKILL:when=%d", k.name, k.ordinal))
	}
	// phase 2: the same run with the fault / the kill injected
	root2, dir2 := verifPrepareDir(c)
	defer os.RemoveAll(root2)
	verifRunChild(dir2, filepath.Join(root2, "trace"), inject)
	final := newFileCache(dir2).path(Key{1, 2, 3})
	finalData, err := os.ReadFile(final)
	present = err == nil
	if _, e := os.Stat(filepath.Join(root2, "child-ok")); e == nil {
		returned = true
	} else if b, e := os.ReadFile(filepath.Join(root2, "child-err")); e == nil {
		returned, addErr = true, string(b)
		if addErr == "" {
			addErr = "error"
		}
	}
	if c.crash < 9 && returned {
		return finalData, present, returned, addErr, false // the kill did not hit (thread mismatch): inconclusive
	}
	return finalData, present, returned, addErr, true
}

func verifBytesEq(a, b []byte) bool { return string(a) == string(b) }

// verifNativeCheck evaluates the same claims as the symbolic harness on the real directory.
func verifNativeCheck(c verifNativeCase) {
	if dir := os.Getenv(verifChildEnv); dir != "" {
		verifChildMain(dir, c)
	}
	data, present, returned, addErr, placed := verifNative(c)
	if !placed {
		verifrt.Assume(false)
	}
	visible := !present || (c.prior == 1 && verifBytesEq(data, c.old)) || verifBytesEq(data, c.content)
	if c.crash < 9 {
		verifrt.Assert(visible, "if the process dies while adding an entry, a later process finds no entry or a complete one under the final name")
		verifrt.Cover("crash-point")
		return
	}
	verifrt.Assert(visible, "after Add returns, the final name holds no entry or a complete one")
	if returned && addErr == "" {
		verifrt.Assert(present && verifBytesEq(data, c.content), "when Add reports success the complete new entry is visible under the final name")
		verifrt.Cover("added")
	} else if returned {
		verifrt.Cover("failed")
	}
}
